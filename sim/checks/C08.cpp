// C08 — vi operators, inserts, puts and registers transform text per the reference model.
// Model-driven generation (the generator runs EdModel to emit only commands whose
// insert-mode text will really be read as text), EdModel as the oracle after every
// command; filters run through simulated children at seeded pacing / pipe sizes;
// multi-byte keys may arrive one byte per read.
#include "common.h"
#include "../models/edmodel.h"

namespace {

static std::string hex(const std::string &s) { static const char *d = "0123456789abcdef"; std::string o; for (unsigned char c : s) { o += d[c >> 4]; o += d[c & 15]; } return o; }
static std::string unhex(const std::string &s) { std::string o; for (size_t i = 0; i + 1 < s.size(); i += 2) o += (char) strtol(s.substr(i, 2).c_str(), nullptr, 16); return o; }

struct C08 : Check {
	const char *id() const override { return "C08"; }
	std::string rule() const override {
		return "'vi -v' sessions of 1..40 commands over texts of ASCII words, punctuation, blanks, tabs, 2-/3-byte, wide and combining characters, empty lines and the empty buffer, with autoindent on and off: "
			"operators d c y < > ! g~ gu gU with targets h l 0 ^ $ | w W b B e E f F t T ; , % j k + - _ G H M L and doubled, counts on both sides, register prefixes \"a-\"c and \"A-\"C; x X D C s S Y ~ r J; p P with counts from unnamed, named and numbered registers; "
			"i a I A o O and c with typed text containing ^H ^W ^U ^V<char> and newlines; placements by G | w b e 0 ^ $ h l f t. Filters (!) run through simulated children at seeded pipe capacity, pacing and stalls. "
			"After every command: text == EdModel (region = span between cursor and motion target, exclusive / inclusive / line-wise per the motion), cursor in the reference's acceptable set, watched registers (unnamed, a-c, 1-9: text and line-wise flag) == EdModel: "
			"what was deleted or yanked is what the register holds and what a later put inserts, deletions of lines or across lines shift 1..9, an upper-case name appends, a failing command changes nothing. "
			"non-trivial = at least one command judged; distinct = distinct event-log fingerprints";
	}
	std::vector<std::string> assumptions() const override {
		return {"left-to-right text without cased non-ASCII letters (case operators are defined for ASCII here)",
			"the region of an operator is the plain span to the motion's target: no 'cw acts like ce' and no 'dw stops at the end of the line' special cases (the statement defines the region as the span between cursor and target)",
			"> adds one tab to non-empty lines and < removes one leading tab (shiftwidth = tabstop = 8); J spacing: none after a space or before ')', two after '.', else one",
			"autoindent: a new line takes the indentation of the line it was opened from; it is dropped again on a line where nothing but blanks was typed and no text follows",
			"counts are not given to i a I A o O (neatvi does not repeat inserted text)"};
	}
	std::vector<std::string> excluded() const override {
		return {"commands whose motion yields an empty region (dh at the first character, x on an empty line, d0 at column 0 ...): POSIX makes them errors, neatvi overwrites the register with empty text; text must be unchanged, registers are adopted",
			"counts that leave the buffer (d5j near the end, 9J): POSIX fails, neatvi clamps",
			"the cursor after a character-wise put: first or last character of the put text are both accepted; after a multi-line character-wise put, a filter, and the column after a line-wise yank it is adopted",
			"numbered registers after a YANK of lines (neatvi rotates them, POSIX does not say) and the unnamed register when a name was given (neatvi leaves it, POSIX copies): adopted",
			"the empty buffer: operators, o / O and line-wise puts are adopted; i / a and character-wise puts are judged",
			"{ } as operator targets, N$ / ND / NC with a count, ; , after t / T with an adjacent target, H / L counts beyond the window, J with an empty or blank next line or after a tab / ? / !, < on lines indented with spaces",
			"^T ^D ^K ^P ^R ^A in insert mode, r<newline>, counts on inserts"};
	}

	static std::string gen_line8(Rng &r)
	{
		if (r.chance(1, 9)) return "";
		std::string s;
		int nw = (int) r.range(1, 6);
		for (int i = 0; i < nw; i++) {
			if (i) s += r.chance(1, 7) ? "\t" : r.chance(1, 6) ? "  " : " ";
			int w = (int) r.below(13);
			static const char *ws[] = {"foo", "Bar.baz", "x", "(a[1])", "{b}", "a_b", "qux,", "--", "if(x)", "z9", "end."};
			if (w < 11) s += ws[w];
			else if (w == 11) s += utf8_enc(0xa7) + "t" + utf8_enc(0x4e2d) + utf8_enc(0x6587);
			else s += "o" + utf8_enc(0x301) + "k";
		}
		if (r.chance(1, 5)) s = "\t" + s;
		else if (r.chance(1, 10)) s = "  " + s;
		return s;
	}

	static std::string gen_typed(Rng &r, bool newlines)
	{
		std::string t;
		int n = (int) r.range(0, 9);
		for (int i = 0; i < n; i++) {
			int k = (int) r.below(40);
			static const char *ws[] = {"new", "X.y", "q", "(z)", "_w", "7", ",", "ab cd", " ", "  ", "\t"};
			if (k < 22) t += ws[k % 11];
			else if (k < 25) t += utf8_enc(k == 22 ? 0x4e16 : k == 23 ? 0xa9 : 0x301);
			else if (k < 29) t += "\x08";
			else if (k < 31) t += "\x17";
			else if (k == 31) t += "\x15";
			else if (k < 34) t += std::string("\x16") + (r.chance(1, 2) ? utf8_enc(0x754c) : std::string(1, "a(.$"[r.below(4)]));
			else if (k < 37 && newlines) t += "\n";
			else t += " ";
		}
		return t;
	}

	// ---- command <-> keys / meta
	static std::string opkeys(int op) { return op == '~' ? "g~" : op == 'u' ? "gu" : op == 'U' ? "gU" : std::string(1, (char) op); }
	static std::string motkeys(const vim::Cmd &c) { if (c.mot == "=") return std::string(1, c.op == '~' ? '~' : c.op == 'u' ? 'u' : c.op == 'U' ? 'U' : (char) c.op); return c.mot; }
	static std::string keys_of(const vim::Cmd &c, const std::string &simple)
	{
		std::string k;
		if (c.reg) { k += '"'; k += (char) c.reg; }
		if (c.c1) k += std::to_string(c.c1);
		if (c.kind == "place") return k + c.mot;
		if (c.kind == "op") {
			if (!simple.empty()) k += simple;
			else { k += opkeys(c.op); if (c.c2) k += std::to_string(c.c2); k += motkeys(c); }
			if (c.op == 'c') k += c.typed + "\x1b";
			if (c.op == '!') k += c.filter + "\n";
			return k;
		}
		if (c.kind == "put") return k + (char) c.op;
		if (c.kind == "ins") return k + (char) c.op + c.typed + "\x1b";
		if (c.kind == "join") return k + "J";
		if (c.kind == "repl") return k + "r" + c.mot;
		return k;
	}
	static Json meta_of(const vim::Cmd &c, const std::string &name)
	{
		Json m = Json::obj();
		m.set("kind", c.kind).set("op", (long long) c.op).set("mot", hex(c.mot)).set("c1", (long long) c.c1).set("c2", (long long) c.c2).set("reg", (long long) c.reg)
			.set("typed", hex(c.typed)).set("filter", c.filter).set("name", name);
		return m;
	}
	static vim::Cmd cmd_of(const Json &m)
	{
		vim::Cmd c;
		c.kind = m.str("kind"); c.op = (int) m.num("op"); c.mot = unhex(m.str("mot")); c.c1 = (int) m.num("c1"); c.c2 = (int) m.num("c2"); c.reg = (int) m.num("reg");
		c.typed = unhex(m.str("typed")); c.filter = m.str("filter");
		return c;
	}

	static std::string gen_motion(Rng &r, bool for_c)
	{
		static const char *ms[] = {"h", "l", "0", "^", "$", "|", "w", "w", "W", "b", "B", "e", "e", "E", "f", "F", "t", "T", ";", ",", "%", "j", "k", "+", "-", "_", "G", "=", "=", "=", "H", "M", "L"};
		for (;;) {
			std::string m = ms[r.below(33)];
			if (for_c && (m == "H" || m == "M" || m == "L")) continue;
			if (m == "f" || m == "F" || m == "t" || m == "T") {
				static const char *targets[] = {"a", "o", ".", "(", " ", "x", "z", "\t", "]", "b"};
				m += r.chance(1, 8) ? utf8_enc(r.chance(1, 2) ? 0x4e2d : 0xa7) : std::string(targets[r.below(10)]);
			}
			return m;
		}
	}

	Plan generate(unsigned long long seed, int tier) override
	{
		Rng r(seed * 0x9e3779b97f4a7c15ull + 0xC08);
		Plan p = base_plan("C08", seed, "vi");
		p.rows = (int) r.range(5, 40); p.cols = (int) r.range(40, 140);
		bool ai = !r.chance(1, 4);
		p.env.clear(); p.env.push_back({"EXINIT", ai ? "" : "se noai"});
		p.meta = Json::obj(); p.meta.set("ai", ai);
		FileSpec f; f.path = "F"; f.mtime = -100;
		int nl = r.chance(1, 15) ? 0 : (int) r.range(1, 25);
		vim::Ed E; E.ai = ai;
		for (int i = 0; i < nl; i++) { std::string l = gen_line8(r); f.data += l + "\n"; E.M.b.push_back(vim::dec(l)); }
		p.files.push_back(f);
		p.argv.push_back("F");
		if (r.chance(1, 4)) p.knobs.read_policy = 1;
		static const long caps[] = {1, 7, 64, 512, 4096, 65536};
		p.knobs.pipe_cap = caps[r.below(6)];
		p.knobs.child_pace = r.chance(1, 2) ? 4096 : r.range(1, 40);
		p.knobs.stall_pct = r.chance(1, 3) ? (int) r.range(5, 50) : 0;
		E.M.rows = p.rows - 1;
		bool blind = false;		// the generator's model no longer knows the editor's text / cursor
		std::set<int> unk;		// registers the generator does not know
		auto runf = [](const std::string &cmd, const std::string &in) { return catalogue_output(cmd, in); };
		int nsteps = (int) r.range(1, tier ? 40 : 30);
		for (int i = 0; i < nsteps; i++) {
			vim::Cmd c; std::string simple, name;
			bool accepted = false;
			for (int tries = 0; tries < 30 && !accepted; tries++) {
				c = vim::Cmd(); simple.clear();
				int k = r.weighted({22, 30, 16, 12, 9, 4, 4, 3});
				int c1 = r.chance(1, 4) ? (int) r.range(1, 4) : 0;
				int reg = r.chance(3, 5) ? 0 : r.chance(2, 3) ? 'a' + (int) r.below(3) : 'A' + (int) r.below(3);
				if (k == 0) {
					c.kind = "place";
					static const char *pm[] = {"G", "G", "G", "|", "|", "w", "b", "e", "W", "B", "E", "0", "^", "$", "h", "l", "j", "k", "j", "k"};
					c.mot = pm[r.below(20)];
					if (c.mot == "G") c.c1 = (int) r.range(1, std::max(1, E.n()));
					else if (c.mot == "|") c.c1 = (int) r.range(1, 40);
					else if (c.mot != "0" && c.mot != "$" && c.mot != "^") c.c1 = c1;
					name = "place";
				} else if (k == 1) {
					c.kind = "op";
					static const int ops[] = {'d', 'd', 'd', 'd', 'y', 'y', 'y', 'c', 'c', 'c', '~', 'u', 'U', '<', '>'};
					c.op = ops[r.below(15)];
					c.mot = gen_motion(r, c.op == 'c');
					c.c1 = c1; c.c2 = r.chance(1, 6) ? (int) r.range(1, 3) : 0;
					if (c.mot == "$" || c.mot == "0" || c.mot == "^" || c.mot == "%" || c.mot == "M") c.c1 = c.c2 = 0;
					if (c.mot == "|") { c.c1 = 0; c.c2 = (int) r.range(1, 40); }
					if (c.mot == "G" && (c.c1 || c.c2)) { c.c1 = 0; c.c2 = (int) r.range(1, std::max(1, E.n())); }
					if (c.op == 'd' || c.op == 'y' || c.op == 'c') c.reg = reg;
					if (c.op == 'c') c.typed = gen_typed(r, true);
					name = opkeys(c.op);
				} else if (k == 2) {
					c.kind = "op";
					static const char *ss[] = {"x", "x", "X", "D", "C", "s", "S", "Y", "~", "~"};
					simple = ss[r.below(10)];
					c.c1 = c1; c.reg = simple == "~" ? 0 : reg;
					if (simple == "x") { c.op = 'd'; c.mot = " "; }
					else if (simple == "X") { c.op = 'd'; c.mot = "\b"; }
					else if (simple == "D") { c.op = 'd'; c.mot = "$"; c.c1 = 0; }
					else if (simple == "C") { c.op = 'c'; c.mot = "$"; c.c1 = 0; }
					else if (simple == "s") { c.op = 'c'; c.mot = " "; }
					else if (simple == "S") { c.op = 'c'; c.mot = "="; }
					else if (simple == "Y") { c.op = 'y'; c.mot = "="; }
					else { c.op = '~'; c.mot = " "; }
					if (c.op == 'c') c.typed = gen_typed(r, true);
					name = simple;
				} else if (k == 3) {
					c.kind = "put"; c.op = r.chance(1, 2) ? 'p' : 'P'; c.c1 = r.chance(1, 5) ? (int) r.range(2, 3) : 0;
					c.reg = r.chance(1, 2) ? 0 : r.chance(1, 2) ? 'a' + (int) r.below(3) : '1' + (int) r.below(4);
					name = std::string(1, (char) c.op);
				} else if (k == 4) {
					c.kind = "ins"; c.op = "iaIAoO"[r.below(6)]; c.typed = gen_typed(r, true);
					name = std::string(1, (char) c.op);
				} else if (k == 5) {
					c.kind = "join"; c.c1 = r.chance(1, 3) ? (int) r.range(2, 4) : 0; name = "J";
				} else if (k == 6) {
					c.kind = "repl"; c.c1 = c1;
					c.mot = r.chance(1, 5) ? utf8_enc(0x4e2d) : std::string(1, "xY.( "[r.below(5)]);
					name = "r";
				} else {
					c.kind = "op"; c.op = '!';
					static const char *lm[] = {"=", "=", "j", "k", "G", "+", "w", "$"};
					c.mot = lm[r.below(8)];
					c.c1 = r.chance(1, 4) ? (int) r.range(1, 3) : 0;
					if (c.mot == "$" || c.mot == "G") c.c1 = 0;
					static const char *fs[] = {"tr a-z A-Z", "sort", "rev", "tac", "cat", "wc -l", "head -1", "uniq", "true", "sed p"};
					c.filter = fs[r.below(10)];
					name = "!";
				}
				// validity against the generator's model
				bool needs_text = (c.kind == "op" && (c.op == 'c' || c.op == '!')) || c.kind == "ins";
				if (blind) { if (needs_text) continue; accepted = true; break; }
				vim::Ed T = E;
				vim::Outcome o = T.apply(c, runf);
				bool reads_unk = c.kind == "put" && unk.count(c.reg);
				if (needs_text && (o.fail || o.corner)) continue;
				if ((o.corner || reads_unk) && !r.chance(1, 6)) continue;	// keep corners rare
				if (o.fail && !r.chance(1, 3)) continue;
				accepted = true;
				E.M.fcmd = T.M.fcmd; E.M.fch = T.M.fch;
				if (o.corner || reads_unk) blind = true;
				else if (!o.fail) {
					E = T;
					for (int u : o.unk) unk.insert(u);
					if (c.kind == "op" && (c.op == 'd' || c.op == 'y' || c.op == 'c')) { unk.erase(tolower(c.reg)); }
					if (o.cursor_follow) blind = true;
				}
			}
			if (!accepted) { c = vim::Cmd(); c.kind = "place"; c.mot = "0"; simple.clear(); name = "place"; }
			Step s; s.keys = keys_of(c, simple); s.meta = meta_of(c, name);
			p.steps.push_back(s);
			// after a blind stretch the text stays unknown; nothing to restore
		}
		return p;
	}

	// ---- oracle
	vim::Ed E;
	bool dead = false;
	bool xcol_known = true;	// the column j/k aim for is defined by the reference (not after corners / failing commands)
	int prev_top = 0;
	static const int *watch() { static const int w[] = {0, 'a', 'b', 'c', '1', '2', '3', '4', '5', '6', '7', '8', '9', -1}; return w; }

	void begin(RunCtx &c) override { E = vim::Ed(); dead = false; xcol_known = true; prev_top = 0; E.ai = c.plan.meta.boolean("ai", true); }

	void adopt_text(RunCtx &c) { E.M.b.clear(); for (auto &l : c.text()) E.M.b.push_back(vim::dec(l)); }
	void adopt_cursor(RunCtx &c)
	{
		int row = c.row(), off = c.off();
		if (E.n() == 0) { E.M.c.row = 0; E.M.c.off = 0; return; }
		if (row >= E.n()) row = E.n() - 1;
		if (row < 0) row = 0;
		E.M.c.row = row; E.M.c.off = std::max(0, std::min(off, E.M.lastoff(row)));
		E.M.xcol = E.M.col_of(E.M.c.row, E.M.c.off);
	}
	void adopt_reg(RunCtx &c, int name)
	{
		vim::Reg g;
		if (c.has_reg(name)) { int ln = 0; g.s = vim::dec(c.reg(name, &ln)); g.ln = ln != 0; g.set = true; }
		E.R[name] = g;
	}
	static std::string regname(int n) { return n ? std::string(1, (char) n) : std::string("unnamed"); }

	void quiescent(RunCtx &c, int after) override
	{
		int top_before = prev_top;
		prev_top = c.top();
		if (getenv("NVSIM_DUMP")) {
			fprintf(stderr, "== after step %d: row %d off %d top %d\n", after, c.row(), c.off(), c.top());
			int i = 0; for (auto &l : c.text()) fprintf(stderr, "  %2d |%s|\n", ++i, vis(l, 100).c_str());
			for (const int *w = watch(); *w >= 0; w++) if (c.has_reg(*w)) { int ln = 0; std::string v = c.reg(*w, &ln); fprintf(stderr, "  reg %s %s \"%s\"\n", regname(*w).c_str(), ln ? "L" : "c", vis(v, 80).c_str()); }
		}
		if (after < 0) { adopt_text(c); adopt_cursor(c); return; }
		if (dead) return;
		const Step &s = c.plan.steps[(size_t) after];
		vim::Cmd cmd = cmd_of(s.meta);
		std::string name = s.meta.str("name");
		std::string ctx = "step " + std::to_string(after) + " " + vis(s.keys, 40) + " at line " + std::to_string(E.M.c.row + 1) + " char " + std::to_string(E.M.c.off);
		bool hml = cmd.mot == "H" || cmd.mot == "M" || cmd.mot == "L";
		E.M.top = hml ? top_before : c.top(); E.M.rows = K.rows - 1;
		vim::Ed before = E;
		vim::Outcome o = E.apply(cmd, [](const std::string &f, const std::string &in) { return catalogue_output(f, in); });
		bool needs_text = (cmd.kind == "op" && (cmd.op == 'c' || cmd.op == '!')) || cmd.kind == "ins";
		if (needs_text && (o.fail || o.corner)) { dead = true; c.count("plan_no_longer_fits_after_shrinking"); return; }
		std::vector<std::string> text = c.text();
		if (o.corner) {
			c.count("corner: " + o.why);
			{ int fc = E.M.fcmd; unsigned fh = E.M.fch; E = before; E.M.fcmd = fc; E.M.fch = fh; }
			adopt_text(c); adopt_cursor(c);
			for (const int *w = watch(); *w >= 0; w++) adopt_reg(c, *w);
			xcol_known = false;
			return;
		}
		bool jk = cmd.kind == "place" && (cmd.mot == "j" || cmd.mot == "k");
		if (jk && !xcol_known) o.col_free = true;
		if (o.fail) { vim::Ed keep = E; E = before; E.M.fcmd = keep.M.fcmd; E.M.fch = keep.M.fch; }
		c.compared();
		c.count(o.fail ? "failing_commands_judged" : "commands_judged");
		c.count("cmd " + name);
		// ---- text
		std::vector<std::string> want; for (auto &l : E.M.b) want.push_back(vim::encs(l));
		bool bad = false;
		if (text != want) {
			bad = true;
			size_t i = 0; while (i < text.size() && i < want.size() && text[i] == want[i]) i++;
			c.violate("C08/" + name + (o.fail ? "/failing-command-changed-text" : "/text-differs"), ctx + (o.fail ? ": the reference defines the command as failing (" + o.why + "), but the text changed" : ": text differs from the reference") +
				" at line " + std::to_string(i + 1) + ": reference \"" + (i < want.size() ? vis(want[i], 50) : std::string("<none>")) + "\" (" + std::to_string(want.size()) + " lines), editor \"" + (i < text.size() ? vis(text[i], 50) : std::string("<none>")) + "\" (" + std::to_string(text.size()) + " lines)");
		}
		// ---- cursor
		if (!bad && !o.cursor_follow && E.n() > 0) {
			int row = c.row(), off = c.off();
			int lo = row >= 0 && row < E.n() ? E.M.lastoff(row) : 0;
			if (off > lo) off = lo;
			if (off < 0) off = 0;
			std::vector<vim::Pos> ok = o.alts; ok.push_back(E.M.c);
			bool fine = false;
			for (auto &p : ok) if (p.row == row && (o.col_free || p.off == off)) fine = true;
			if (!fine)
				c.violate("C08/" + name + "/cursor", ctx + ": the reference puts the cursor on line " + std::to_string(E.M.c.row + 1) + (o.col_free ? "" : " char " + std::to_string(E.M.c.off)) +
					(o.alts.empty() ? "" : " (or line " + std::to_string(o.alts[0].row + 1) + " char " + std::to_string(o.alts[0].off) + ")") + ", the editor's is on line " + std::to_string(row + 1) + " char " + std::to_string(off));
		}
		// ---- registers
		for (const int *w = watch(); *w >= 0 && !bad; w++) {
			int nm = *w;
			if (o.unk.count(nm)) { adopt_reg(c, nm); continue; }
			vim::Reg &g = E.R[nm];
			bool has = c.has_reg(nm);
			int ln = 0;
			std::string got = has ? c.reg(nm, &ln) : "";
			if ((g.set && !g.s.empty() && !has) || (!g.set && has && !got.empty())) {
				c.violate("C08/" + name + "/register-" + (has ? "set" : "lost"), ctx + ": register " + regname(nm) + (has ? " holds \"" + vis(got, 40) + "\" but the reference leaves it unset" : " is unset but the reference holds \"" + vis(vim::encs(g.s), 40) + "\""));
			} else if (has && got != vim::encs(g.s)) {
				c.violate("C08/" + name + "/register-text", ctx + ": register " + regname(nm) + " holds \"" + vis(got, 50) + "\", the reference \"" + vis(vim::encs(g.s), 50) + "\"");
			} else if (has && !o.lnunk.count(nm) && (ln != 0) != g.ln) {
				c.violate("C08/" + name + "/register-mode", ctx + ": register " + regname(nm) + " is " + (ln ? "line-wise" : "character-wise") + ", the reference says " + (g.ln ? "line-wise" : "character-wise"));
			}
			if (o.lnunk.count(nm) && has) g.ln = ln != 0;
		}
		// adopt what the reference leaves open, and resynchronise after a reported difference
		if (bad) { adopt_text(c); for (const int *w = watch(); *w >= 0; w++) adopt_reg(c, *w); }
		{
			// j and k keep the column they aim for; everything else that succeeded defines it anew
			int keep = E.M.xcol;
			bool exact = !o.cursor_follow && o.alts.empty() && !o.col_free && !bad;
			adopt_cursor(c);
			if (jk && !o.fail) E.M.xcol = keep;
			else if (o.fail) { xcol_known = false; }
			else xcol_known = (exact || cmd.kind == "place") && !(cmd.kind == "op" && cmd.op == 'y');	// (a yank that moves the cursor: whether j/k then aim for the new column is left open)
			if (cmd.kind == "place" && cmd.mot == "|" && !o.fail) E.M.xcol = cmd.c1 - 1;
		}
		Fnv h; for (auto &l : text) h.str(l); h.num((unsigned long long) c.row() * 4096 + (unsigned long long) c.off());
		c.state(h.h);
	}
};

CheckReg reg(new C08);

} // namespace
