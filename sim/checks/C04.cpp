// C04 — Undo and redo restore exact earlier texts, one step per command.
// Snapshot-stack oracle with no editing semantics: the text before every step
// is remembered; u / ^R / :u / :redo must move between those snapshots one
// command at a time.  Commands that ran without a net text change may or may
// not have left a history entry (the statement does not say), so the model
// tracks the set of histories consistent with everything seen so far.
#include "common.h"
#include <cerrno>

namespace {

typedef std::vector<std::string> Text;

struct Hist {
	std::vector<Text> snaps;
	int pos = 0;
	bool lo_unknown = false, hi_unknown = false;	// the model was restarted: what lies beyond the ends is not known
	bool operator==(const Hist &o) const { return pos == o.pos && lo_unknown == o.lo_unknown && hi_unknown == o.hi_unknown && snaps == o.snaps; }
};

struct C04 : Check {
	const char *id() const override { return "C04"; }
	std::string rule() const override {
		return "histories (<= 60 steps, now and then 125..200 edits followed by a deep unwind; ruler on and off; 1-2 buffers) of modifying commands mixed with u, ^R, :u, :redo in 'vi -s -e' and 'vi -v': ex a i c d pu s g v r and N,M!filter, vi x X dd dw D p P J r ~ o O i a A cw >> << !}filter "
			"with counts, '.', multi-line inserts, globals with multi-line effects, filters through simulated children (random pacing, small pipes, stalls, fork failure, children that exit early), :e! reload. "
			"Oracle: after undo the text equals the snapshot before the most recent not-yet-undone modifying command; redo reinstates what undo removed; a new edit discards the redo branch; "
			"undo/redo at the ends change nothing; every command (however many lines or sub-edits) is exactly one step. Commands without net text change fork the model (with / without a hidden step); "
			"the editor must match one consistent history. non-trivial = at least one undo or redo compared; distinct = distinct event-log fingerprints";
	}
	std::vector<std::string> assumptions() const override {
		return {"cursor motions create no undo step (C07: motions never change the text)",
			"an ex command line is one command for undo purposes, also when it joins several commands with '|' (the line is what the user issues; neatvi and vi agree)",
			"runs that end by SIGPIPE inside a filter are C05's subject and are only counted here",
			"exhaustive enumeration at the line-buffer interface (bounded model checking) is not attempted; this check samples at the editor's command interface"};
	}

	struct G {
		Rng &r; Plan &p; bool vi; int uniq = 0;
		G(Rng &r_, Plan &p_, bool v) : r(r_), p(p_), vi(v) {}
		void ex(const std::string &line, const char *kind = "mod") { Step s = ex_step(p, line); s.meta = Json::obj(); s.meta.set("k", kind); p.steps.push_back(s); }
		void keys(const std::string &k, const char *kind = "mod") { Step s = keys_step(k); s.meta = Json::obj(); s.meta.set("k", kind); p.steps.push_back(s); }
		int gpu = 0;
		std::string word() { return "w" + std::to_string(++uniq) + gen_line(r, r.range(0, 5), A_LOWER); }
		std::string textblock(int n) { std::string t; for (int i = 0; i < n; i++) t += word() + (r.chance(1, 3) ? " " + word() : "") + "\n"; return t; }
		std::string filter() {
			static const char *f[] = {"sort", "tr a-z A-Z", "cat", "rev", "tac", "sed p", "uniq", "wc -l", "head -1", "head -2", "true", "false", "echo hi", "nosuchcmd", "sleep 2; sort", "seq 3", "cat >&2"};
			return f[r.below(sizeof f / sizeof f[0])];
		}
		std::string addr() { int k = (int) r.below(8); return k == 0 ? "1" : k <= 2 ? "$" : k == 3 ? "." : k == 4 ? "0" : std::to_string(r.range(1, 5)); }
		std::string range() { long a = r.range(1, 3), b = a + r.range(0, 2); int k = (int) r.below(8); return k == 0 ? "%" : k == 1 ? "1,$" : k == 2 ? ".,$" : std::to_string(a) + "," + std::to_string(b); }
	};

	void gen_ex_mod(G &g)
	{
		Rng &r = g.r;
		switch (r.below(17)) {
		case 15: {
			// one ex line: a modifying command followed by one that fails (the line still is one command line)
			static const char *bad[] = {"99p", "77d", "88,99s/a/b/", "nosuchcommand"};
			g.ex(g.addr() + "d|" + bad[r.below(4)]);
			break;
		}
		case 16: g.ex(g.range() + "s/w/W/|" + g.addr() + "d"); break;
		case 0: case 1: g.ex(g.addr() + "a\n" + g.textblock((int) r.range(1, 3)) + "."); break;
		case 2: g.ex(g.addr() + "i\n" + g.textblock((int) r.range(1, 3)) + "."); break;
		case 3: g.ex(g.range() + "c\n" + g.textblock((int) r.range(0, 3)) + "."); break;
		case 4: g.ex(g.range() + "d"); break;
		case 5: g.ex(g.addr() + "d"); break;
		case 6: g.ex(g.range() + "y", "nomod"); g.ex(g.addr() + "pu"); break;
		case 7: g.ex(g.range() + "s/" + std::string(1, (char) ('a' + r.below(26))) + "/" + (r.chance(1, 5) ? "&" : g.word()) + "/" + (r.chance(1, 2) ? "g" : "")); break;
		case 8: g.ex(g.range() + "s/w[0-9]*/<&>/"); break;
		case 9: g.ex("g/" + std::string(1, (char) ('a' + r.below(26))) + "/" + (r.chance(1, 2) ? "d" : "s/$/!/")); break;
		case 10: g.ex("v/" + std::string(1, (char) ('a' + r.below(26))) + "/s/^/#/"); break;
		// (a put under a global multiplies the buffer by the register: at most twice per plan, or buffers explode)
		case 11: g.ex("g/w/" + std::string(r.chance(1, 2) && g.gpu++ < 2 ? "pu" : "-1d")); break;
		case 12: case 13: g.ex(g.range() + "!" + g.filter()); break;
		case 14:
			if (r.chance(1, 2)) g.ex(g.addr() + "r R"); else g.ex(g.addr() + "r !" + g.filter());
			break;
		}
	}

	void gen_vi_mod(G &g)
	{
		Rng &r = g.r;
		std::string cnt = r.chance(1, 4) ? std::to_string(r.range(2, 5)) : "";
		switch (r.below(24)) {
		case 0: g.keys(cnt + "x"); break;
		case 1: g.keys(cnt + "X"); break;
		case 2: g.keys(cnt + "dd"); break;
		case 3: g.keys("d" + cnt + "w"); break;
		case 4: g.keys("D"); break;
		case 5: g.keys(cnt + "p"); break;
		case 6: g.keys(cnt + "P"); break;
		case 7: g.keys(cnt + "J"); break;
		case 8: g.keys(cnt + "r" + std::string(1, (char) ('A' + r.below(26)))); break;
		case 9: g.keys(cnt + "~"); break;
		case 10: g.keys("o" + g.word() + "\x1b"); break;
		case 11: g.keys("O" + g.word() + "\x1b"); break;
		case 12: g.keys("i" + g.word() + "\x1b"); break;
		case 13: g.keys("A" + g.word() + "\x1b"); break;
		case 14: g.keys("o" + g.word() + "\n" + g.word() + "\n" + g.word() + "\x1b"); break;	// multi-line insert
		case 15: g.keys("cw" + g.word() + "\x1b"); break;
		case 16: g.keys(cnt + ">>"); break;
		case 17: g.keys(cnt + "<<"); break;
		case 18: g.keys("!}" + g.filter() + "\n"); break;
		case 19: g.keys(cnt + "!!" + g.filter() + "\n"); break;
		case 20: g.keys("."); break;	// a counted "." is N commands by C09 ("as retyping it N times"): its undo depth is not generated here
		case 21: g.keys(":g/" + std::string(1, (char) ('a' + r.below(26))) + "/d\n"); break;
		case 22: g.keys(":%s/" + std::string(1, (char) ('a' + r.below(26))) + "/" + g.word() + "/g\n"); break;
		case 23: g.keys("yy" + cnt + "p"); break;
		}
	}

	Plan generate(unsigned long long seed, int tier) override
	{
		Rng r(seed * 0x9e3779b97f4a7c15ull + 0xC04);
		bool vi = r.chance(1, 2);
		Plan p = base_plan("C04", seed, vi ? "vi" : "exs");
		// (the ruler calls lbuf_modified() after every command, which also closes the undo step: without it
		// the vi main loop alone must do that)
		if (vi && r.chance(1, 3)) { p.env.clear(); p.env.push_back({"EXINIT", "se ru=0"}); }
		p.rows = (int) r.range(5, 30); p.cols = (int) r.range(20, 100);
		G g(r, p, vi);
		FileSpec f; f.path = "F"; f.mtime = -100;
		int nl = r.chance(1, 8) ? 0 : (int) r.range(3, 12);
		for (int i = 0; i < nl; i++) f.data += g.word() + " " + g.word() + (r.chance(1, 4) ? "" : " " + g.word()) + "\n";
		p.files.push_back(f);
		FileSpec rf; rf.path = "R"; rf.mtime = -100; rf.data = r.chance(1, 2) ? "read one\nread two\n" : "read without final newline";
		p.files.push_back(rf);
		p.argv.push_back("F");
		// swarm: pipes, pacing, stalls
		static const long caps[] = {1, 7, 64, 512, 4096, 65536};
		p.knobs.pipe_cap = caps[r.below(6)];
		p.knobs.child_pace = r.chance(1, 2) ? 4096 : r.range(1, 40);
		p.knobs.stall_pct = r.chance(1, 3) ? (int) r.range(5, 50) : 0;
		bool faults = r.chance(1, 4);
		int nsteps = (int) r.range(3, tier ? 60 : 40);
		int since_mod = 0;
		if (!vi && r.chance(1, tier ? 60 : 150)) {
			// a long session: tens of thousands of non-modifying commands between two edits
			// (history bookkeeping must not depend on how many commands lie between changes)
			static const long idle[] = {65535, 65534, 65536, 131071, 32767, 32768};
			long n = idle[r.below(6)];
			p.variant = "long-idle-" + std::to_string(n);
			g.ex("$a\n" + g.word() + "\n.");
			Step s; s.op = "keys"; s.meta = Json::obj(); s.meta.set("k", "nomod");
			s.keys.reserve((size_t) n * 2);
			for (long i = 0; i < n; i++) s.keys += "=\n";
			p.steps.push_back(s);
			g.ex("$a\n" + g.word() + "\n.");
			g.ex("u", "undo"); g.ex("u", "undo"); g.ex("redo", "redo"); g.ex("redo", "redo");
			nsteps = 3;
		}
		if (r.chance(1, tier ? 25 : 40)) {
			// a long history: more records than the history table holds at first (it grows at 128),
			// then an unwind deep enough to reach records made before the growth, and back
			int n = (int) r.range(125, 200);
			p.variant = "long-history-" + std::to_string(n);
			for (int i = 0; i < n; i++) { if (vi) g.keys("o" + g.word() + "\x1b"); else g.ex("$a\n" + g.word() + "\n."); }
			int back = (int) r.range(n - 130 > 0 ? n - 130 : 1, n);
			for (int j = 0; j < back; j++) { if (vi) g.keys("u", "undo"); else g.ex("u", "undo"); }
			int fwd = (int) r.range(1, back);
			for (int j = 0; j < fwd; j++) { if (vi) g.keys("\x12", "redo"); else g.ex("redo", "redo"); }
			since_mod += n;
			nsteps = (int) r.range(0, 6);
		}
		for (int i = 0; i < nsteps; i++) {
			int k = r.weighted({50, 22, 10, 8, 3, 3});
			if (k == 0) {
				size_t before = p.steps.size();
				if (vi) gen_vi_mod(g); else gen_ex_mod(g);
				if (faults && r.chance(1, 3) && p.steps.size() > before) {
					Step &s = p.steps.back();
					if (s.keys.find('!') != std::string::npos) {
						Fault fa; fa.seam = "fork"; fa.nth = 0; fa.effect = "fail";
						if (r.chance(1, 2)) { fa.seam = "cpoll"; fa.nth = (int) r.below(4); fa.effect = "eintr"; }
						s.faults.push_back(fa);
					}
				}
				since_mod++;
			} else if (k == 1) {
				int n = (int) r.range(1, 3);
				for (int j = 0; j < n; j++) { if (vi) g.keys("u", "undo"); else g.ex("u", "undo"); }
			} else if (k == 2) {
				int n = (int) r.range(1, 2);
				for (int j = 0; j < n; j++) { if (vi) g.keys("\x12", "redo"); else g.ex("redo", "redo"); }
			} else if (k == 3) {
				// motions / current-line changes: not modifying
				if (vi) { static const char *m[] = {"j", "k", "G", "1G", "w", "$", "0", "3j", "b"}; g.keys(m[r.below(9)], "motion"); }
				else g.ex(g.addr(), "motion");
			} else if (k == 4) {
				g.ex("w!", "nomod");
			} else {
				g.ex("e!", "mod");
			}
		}
		// finish with a full unwind: as many undos as there can be steps, then all redos
		if (r.chance(1, 2)) {
			int n = (int) r.range(1, since_mod + 3);
			for (int j = 0; j < n; j++) { if (vi) g.keys("u", "undo"); else g.ex("u", "undo"); }
			for (int j = 0; j < n; j++) { if (vi) g.keys("\x12", "redo"); else g.ex("redo", "redo"); }
		}
		return p;
	}

	// ------------------------------------------------------------ oracle
	std::vector<Hist> cands;
	Text cur;
	bool gave_up = false;

	void begin(RunCtx &) override { cands.clear(); cur.clear(); gave_up = false; floor_unknown = false; }

	static std::string describe(const Text &t)
	{
		std::string o = std::to_string(t.size()) + " lines [";
		for (size_t i = 0; i < t.size() && i < 4; i++) o += (i ? "|" : "") + vis(t[i], 24);
		return o + (t.size() > 4 ? "|...]" : "]");
	}

	void dedup()
	{
		std::vector<Hist> u;
		for (auto &h : cands) {
			bool dup = false;
			for (auto &x : u) if (x == h) { dup = true; break; }
			if (!dup) u.push_back(h);
		}
		cands.swap(u);
		if (cands.size() > 200) { gave_up = true; cands.clear(); }
	}

	void quiescent(RunCtx &c, int after) override
	{
		Text now = c.text();
		if (after == -1) {
			Hist h; h.snaps.push_back(now); h.pos = 0;
			cands.push_back(h);
			cur = now;
			return;
		}
		const Step &s = c.plan.steps[(size_t) after];
		std::string k = s.meta.str("k");
		std::string ctx = "step " + std::to_string(after) + " " + vis(s.keys, 40);
		if (getenv("NVSIM_DEBUG")) {
			fprintf(stderr, "%s kind=%s now=%s cands=%zu:", ctx.c_str(), k.c_str(), describe(now).c_str(), cands.size());
			for (auto &h : cands) fprintf(stderr, " (%zu@%d%s%s)", h.snaps.size(), h.pos, h.lo_unknown ? "L" : "", h.hi_unknown ? "H" : "");
			fprintf(stderr, "\n");
		}
		if (gave_up) {
			// too many consistent histories: restart the model from here, knowing nothing beyond this point
			restart(now);
			gave_up = false;
			c.count("model_restarts");
			return;
		}
		if (k == "undo" || k == "redo") {
			int dir = k == "undo" ? -1 : +1;
			std::vector<Hist> keep;
			bool any_expect_change = false, any_unknown = false;
			Text example;
			bool have_example = false;
			for (auto &h : cands) {
				Hist n = h;
				int np = h.pos + dir;
				Text expect;
				if (np < 0 || np >= (int) h.snaps.size()) {
					if ((np < 0 && h.lo_unknown) || (np > 0 && h.hi_unknown)) {
						// this history leaves the part the model knows: consistent with anything
						any_unknown = true;
						Hist u; u.snaps.push_back(now); u.pos = 0; u.lo_unknown = u.hi_unknown = true;
						keep.push_back(u);
						continue;
					}
					expect = h.snaps[(size_t) h.pos];	// end of history: text unchanged
				} else { expect = h.snaps[(size_t) np]; n.pos = np; any_expect_change = true; }
				if (!have_example) { example = expect; have_example = true; }
				if (expect == now) keep.push_back(n);
			}
			if (cands.empty()) { restart(now); return; }
			if (any_unknown) {
				// some consistent history leaves the known part: nothing assertable at this step
				c.count("unasserted_undo_redo");
				cands.swap(keep);
				dedup();
				cur = now;
				return;
			}
			c.compared();
			c.count(k == "undo" ? "undos_compared" : "redos_compared");
			if (keep.empty()) {
				std::string cls = now == cur ? (dir < 0 ? "C04/undo/no-effect" : "C04/redo/no-effect") :
					(dir < 0 ? "C04/undo/wrong-text" : "C04/redo/wrong-text");
				if (!any_expect_change) cls = dir < 0 ? "C04/undo/changed-text-at-bottom" : "C04/redo/changed-text-at-top";
				c.violate(cls, ctx + ": after " + k + " the text is " + describe(now) + "; expected " + describe(example) +
					" (" + std::to_string(cands.size()) + " consistent histor" + (cands.size() == 1 ? "y" : "ies") + ", before the step: " + describe(cur) + ")");
			}
			cands.swap(keep);
			dedup();
			cur = now;
			return;
		}
		if (k == "motion" || k == "nomod") {
			if (now != cur) c.violate("C04/nonmodifying-changed-text", ctx + ": a command that does not modify changed the text from " + describe(cur) + " to " + describe(now));
			return;
		}
		// a (potentially) modifying command
		if (now != cur) {
			for (auto &h : cands) {
				h.snaps.resize((size_t) h.pos + 1);
				h.snaps.push_back(now);
				h.pos++;
				h.hi_unknown = false;	// a new edit discards whatever redo branch there was
			}
			c.count("visible_modifications");
		} else {
			// no net change: with and without a hidden step
			std::vector<Hist> more;
			for (auto &h : cands) {
				Hist n = h;
				n.snaps.resize((size_t) n.pos + 1);
				n.snaps.push_back(now);
				n.pos++;
				n.hi_unknown = false;
				more.push_back(n);
			}
			cands.insert(cands.end(), more.begin(), more.end());
			c.count("no_net_change_commands");
		}
		dedup();
		cur = now;
		Fnv h; for (auto &l : now) h.str(l);
		h.num(cands.size());
		c.state(h.h);
	}
	bool floor_unknown = false;
	void restart(const Text &now)
	{
		Hist h; h.snaps.push_back(now); h.pos = 0; h.lo_unknown = h.hi_unknown = true;
		cands.assign(1, h);
		cur = now;
	}

	void finish(RunCtx &c) override
	{
		if (c.res.outcome == OUT_KILLED_SIGPIPE) c.count("runs_ended_by_sigpipe");
	}
};

CheckReg reg(new C04);

} // namespace
