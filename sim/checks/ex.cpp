// C06 — ex line commands change exactly the addressed lines (reference line editor)
// C14 — Substitute rewrites exactly the leftmost non-overlapping matches
// C15 — Global runs its command once per matching line, undone as one step
// All three are refinement checks of the running editor against ExModel
// (models/exmodel.h) with RefRegex as the independent matcher.  Generation is
// model-driven: the generator runs the same model to know the buffer, so that
// addresses are mostly valid (and deliberately invalid ones are labelled) and
// commands that read text get exactly as many blocks as the reference needs.
#include "common.h"
#include "regen.h"
#include "../models/exmodel.h"
#include <set>

namespace {

struct ExCheck : Check {
	std::string pid;
	explicit ExCheck(const char *id_) : pid(id_) {}
	const char *id() const override { return pid.c_str(); }
	std::string rule() const override {
		if (pid == "C06")
			return "scripts (5..40 commands) in 'vi -s -e' and through ':' in 'vi -v' over a i c d y pu r p = k N,M!filter rs @ ra with addresses from numbers . $ marks /re/ ?re? offsets , and ;, including addresses that must be rejected "
				"(0 for non-adding commands, beyond $, inverted, unset marks, failing searches), on buffers of 0, 1 and many lines, marks before / inside / after the edited range; r file under short reads, r !cmd and filters through simulated children at random pacing and pipe capacity. "
				"After every command: buffer = ExModel buffer, output of p and = exact, silent commands print nothing, current line = the reference's where POSIX defines it, rejected => buffer unchanged, marks designate the same line object. non-trivial = at least one command compared; distinct = distinct event-log fingerprints";
		if (pid == "C14")
			return ":[range]s/re/rep/[g] and bare / empty-pattern forms over ranges, patterns from the RefRegex grammar (literals incl. multi-byte, ., sets, ^ $ \\< \\>, groups, |, * + ? {m,n}, incl. empty-matching ones), replacements with literal text, \\0-\\9 (incl. groups that did not take part), \\c, on ASCII and multi-byte lines. "
				"Oracle per addressed line: scan the ORIGINAL line left to right with RefRegex in full context, first match or with g every successive non-overlapping match, one character kept after an empty match; all other lines unchanged; result valid UTF-8; an empty match at the very end of a line after earlier replacements is accepted either way. non-trivial = a substitute compared; distinct = distinct fingerprints";
		return ":[range]g/re/cmds, g! and v with command lists from d, s, pu, a/i/c with text (one block per execution), relative-address commands (-1d .,+1d -1pu +1s) and one level of nested g, over buffers of 0..40 lines, followed by u. "
			"Oracle: ExModel runs the statement's algorithm (lines of the original range by identity, each still-existing line visited once in increasing order, never an inserted line, command run iff the line matches at visit time, nested global sees the outer's current line only); "
			"buffer must equal the model's; one u must restore the text from before the global. non-trivial = a global compared; distinct = distinct fingerprints";
	}
	std::vector<std::string> assumptions() const override {
		return {"patterns are generated from the RefRegex grammar (never parsed from arbitrary bytes) and keep lines <= 80 characters, far from the engine's depth limit",
			"ignorecase keeps its default (on); searches do not wrap (neatvi has no wrapscan option)",
			"text produced by filters is the catalogue function of the simulated shell; the same function feeds the reference model",
			"writeany is set so that filters run on a modified buffer (neatvi otherwise answers 'buffer modified')",
			"a command of the global's list that is rejected ends the global (the ex convention; the statement is about lines that are visited)",
			"after a rejected command, and after commands whose resulting current line the reference semantics do not define, the model's current line is resynchronised from the probe (the statement pins only the buffer there)"};
	}
	std::vector<std::string> excluded() const override {
		return {"whether a command in a global's list that addresses line 0 (-1d on line 1) ends the global: neatvi treats it as a no-op and continues; the model follows",
			"c and filters on an EMPTY buffer (no line exists; neatvi lets the text / output become the buffer): the model accepts them too, they are not generated on purpose",
			"0i (insert with address 0): POSIX allows address 0 for append and read only, the statement says 'the commands that add text'; not generated, the model accepts it",
			"a bare + or - with no digits, a separator with a missing address after it (2,p)",
			"the current line after a filter (POSIX: last output line; neatvi: unchanged) is not asserted",
			"bare = (POSIX prints the last line number, neatvi the current one): only addressed forms N= $= .= are generated",
			"& in the replacement (not part of the statement's replacement language)",
			"an empty match at the very end of the line after earlier replacements (accepted either way)"};
	}

	// ------------------------------------------------------------ generation
	struct G {
		Rng &r; Plan &p; ExModel m; bool vi;
		std::map<std::string, std::string> files;
		std::vector<std::string> pending_input;
		// does the generator know the editor's current line?  (after commands whose resulting current line
		// the reference does not define, the oracle follows the editor; the generator cannot)
		bool cur_known = true;
		G(Rng &r_, Plan &p_, bool v) : r(r_), p(p_), vi(v) { m.files = &files; }
		int n() { return m.n(); }
		std::string num_in_range() { return n() ? std::to_string(r.range(1, n())) : "1"; }
		std::string good_addr()
		{
			int k = (int) r.below(12);
			if (n() == 0) return k < 6 && cur_known ? "" : "0";
			if (!cur_known && (k == 4 || k >= 10)) k = 0;	// nothing relative to an unknown current line
			if (k < 4) return num_in_range();
			if (k == 4) return ".";
			if (k == 5) return "$";
			if (k == 6) { if (!m.marks.empty()) { auto it = m.marks.begin(); std::advance(it, (long) r.below(m.marks.size())); if (m.find_id(it->second)) return "'" + std::string(1, (char) it->first); } return num_in_range(); }
			if (k == 7) { long a = r.range(1, n()); long d = r.range(0, n() - a); return std::to_string(a) + "+" + std::to_string(d); }
			if (k == 8) { long a = r.range(1, n()); long d = r.range(0, a - 1); return std::to_string(a) + "-" + std::to_string(d); }
			if (k == 9) return "$-" + std::to_string(r.range(0, n() - 1));
			// (now and then the pattern contains its own delimiter, escaped)
			if (k == 10) return r.chance(1, 5) ? std::string("/a\\/b/") : "/" + std::string(WORDS[r.below(12)]) + "/";
			return r.chance(1, 8) ? std::string("?a\\?b?") : "?" + std::string(WORDS[r.below(12)]) + "?";
		}
		std::string good_range()
		{
			if (n() == 0) return "";
			int k = (int) r.below(8);
			if (!cur_known && (k == 1 || k == 5)) k = 2;
			if (k == 0) return "%";
			if (k == 1) return "";
			long a = r.range(1, n()), b = r.range(a, n());
			if (k == 2) return std::to_string(a) + "," + std::to_string(b);
			if (k == 3) return std::to_string(a) + ";+" + std::to_string(b - a);
			if (k == 4) return std::to_string(a) + ",$";
			if (k == 5) return ".,$";
			if (k == 6) return std::to_string(a);
			return std::to_string(a) + "," + std::to_string(a) + "+" + std::to_string(b - a);
		}
		std::string bad_addr()
		{
			int k = (int) r.below(7);
			if (k == 0) return "0";
			if (k == 1) return std::to_string(n() + (int) r.range(1, 3));
			if (k == 2) return n() >= 2 ? std::to_string(n()) + "," + std::to_string(n() - 1) : "2,1";
			if (k == 3) return "'" + std::string(1, (char) ('p' + r.below(8)));	// never set
			if (k == 4) return "/zzzq/";
			if (k == 5) return "?zzzq?";
			return "$+" + std::to_string(r.range(1, 4));
		}
		std::string block(int maxn, bool may_be_empty)
		{
			std::string t;
			int k = (int) r.range(may_be_empty ? 0 : 1, maxn);
			for (int i = 0; i < k; i++) { std::string l = gen_textline(r); if (l == ".") l = ". "; t += l + "\n"; }
			return t + ".\n";
		}
		// emit one command: run it on the generator's model too
		void emit(const std::string &cmdline, const std::string &text, const char *kind)
		{
			Step s;
			s.keys = (vi ? ":" : "") + cmdline + "\n" + text;
			s.meta = Json::obj();
			s.meta.set("k", kind);
			p.steps.push_back(s);
			std::vector<std::string> in = split_lines(text);
			m.input = &in; m.in_pos = 0;
			ExResult R;
			if (std::string(kind) == "bar") { size_t b = cmdline.find('|'); m.exec(cmdline.substr(0, b)); R = m.exec(cmdline.substr(b + 1)); R.rejected = false; R.row_defined = false; }
			else R = m.exec(cmdline);
			m.input = nullptr;
			m.pending_soft = false;
			if (!R.rejected) cur_known = R.row_defined;
		}
	};

	static std::string filter_cmd(Rng &r)
	{
		static const char *f[] = {"sort", "tr a-z A-Z", "cat", "rev", "tac", "sed p", "uniq", "wc -l", "head -1", "head -2", "true", "echo hi", "seq 3", "sleep 2; sort", "nosuchcmd"};
		return f[r.below(15)];
	}

	void gen_c06_cmd(G &g)
	{
		Rng &r = g.r;
		bool bad = r.chance(1, 7);
		int k = (int) r.below(20);
		std::string rg = r.chance(1, 2) ? "" : " " + std::string(1, (char) ('a' + r.below(3)));
		if (r.chance(1, 12)) rg = " " + std::string(1, (char) ('A' + r.below(3)));
		switch (k) {
		case 0: case 1: g.emit((bad ? g.bad_addr() : (r.chance(1, 6) ? "0" : g.good_addr())) + "a", g.block(3, true), "a"); break;
		case 2: { std::string ad = bad ? g.bad_addr() : g.good_addr(); if (ad == "0") ad = "1"; g.emit(ad + "i", g.block(3, true), "i"); break; }
		case 3: g.emit((bad ? g.bad_addr() : g.good_range()) + "c", g.block(3, true), "c"); break;
		case 4: case 5: g.emit((bad ? g.bad_addr() : g.good_range()) + "d" + rg, "", "d"); break;
		case 6: g.emit((bad ? g.bad_addr() : g.good_range()) + "y" + rg, "", "y"); break;
		case 7: case 8: g.emit((bad ? g.bad_addr() : (r.chance(1, 6) ? "0" : g.good_addr())) + "pu" + rg, "", "pu"); break;
		case 9: g.emit((bad ? g.bad_addr() : (r.chance(1, 6) ? "0" : g.good_addr())) + "r " + (r.chance(1, 5) ? "missing" : r.chance(1, 2) ? "R1" : "R2"), "", "r"); break;
		case 10: g.emit((bad ? g.bad_addr() : g.good_addr()) + "r !" + (r.chance(1, 2) ? "echo hi" : "seq 3"), "", "r"); break;
		case 11: case 12: g.emit((bad ? g.bad_addr() : g.good_range()) + "p", "", "p"); break;
		case 13: g.emit((bad ? g.bad_addr() : (r.chance(1, 3) ? "$" : r.chance(1, 2) ? "." : g.good_addr())) + "=", "", "="); break;
		case 14: case 15: g.emit((bad ? g.bad_addr() : g.good_addr()) + "k" + std::string(1, (char) ('a' + r.below(6))), "", "k"); break;
		case 16: {
			std::string rng = g.good_range(); if (rng.empty()) rng = ".";
			if (!bad && g.n() > 0 && r.chance(1, 8)) {
				// the command cannot be started (fork fails): nothing may happen to the addressed lines
				Step s; s.keys = std::string(g.vi ? ":" : "") + rng + "!" + filter_cmd(r) + "\n";
				s.meta = Json::obj(); s.meta.set("k", "!fail");
				Fault f; f.seam = "fork"; f.nth = 0; f.effect = "fail"; s.faults.push_back(f);
				g.p.steps.push_back(s);
				g.cur_known = false;
				break;
			}
			g.emit((bad ? g.bad_addr() : rng) + "!" + filter_cmd(r), "", "!"); break; }
		case 17: {
			// set a register to ex commands, then execute it
			char rname = (char) ('x' + r.below(3));
			std::string body;
			int nb = (int) r.range(1, 3);
			for (int i = 0; i < nb; i++) {
				int w = (int) r.below(4);
				if (w == 0) body += g.good_addr() + "d\n";
				else if (w == 1) body += g.good_range() + "p\n";
				else if (w == 2) body += "$=\n";
				else body += g.good_addr() + "k" + std::string(1, (char) ('a' + r.below(6))) + "\n";
			}
			g.emit("rs " + std::string(1, rname), body + ".\n", "rs");
			g.emit((r.chance(1, 3) ? g.good_addr() : "") + (r.chance(1, 2) ? "@ " : "ra ") + std::string(1, rname), "", "@");
			break;
		}
		case 18: g.emit("'" + std::string(1, (char) ('a' + r.below(6))) + "p", "", "p"); break;		// where does the mark point now?
		default: g.emit((bad ? g.bad_addr() : g.good_range()) + "p", "", "p"); break;
		}
	}

	void gen_c14_cmd(G &g)
	{
		Rng &r = g.r;
		static const char *reps[] = {"X", "", "<\\0>", "\\1", "[\\1|\\2]", "\\2\\1", "\\\\", "a\\/b", "\\9", "\\0\\0", "-", "\\." };
		int k = (int) r.below(12);
		std::string rng = g.good_range();
		std::string pat = gen_pattern(r);
		std::string rep = reps[r.below(12)];
		std::string fl = r.chance(2, 3) ? "g" : "";
		if (r.chance(1, 12)) {
			// alternations in which a group is entered by an attempt that fails (at an earlier start, or in
			// an earlier branch): in the reported match that group took no part and \N must be empty
			static const char *alt[] = {"c|(a)b", "(a)c|b", "(a)(b)x|a", "b|(a)(c)", "(ab)c|a(b)", "x(a)|(b)"};
			g.emit(rng + "s/" + std::string(alt[r.below(6)]) + "/[\\1|\\2]/" + fl, "", "s");
			return;
		}
		if (r.chance(1, 12) && g.n() > 0 && g.cur_known) {
			// a search address in front of a substitute that has a pattern of its own
			std::string a = "/" + std::string(WORDS[r.below(12)]) + "/";
			g.emit(a + "s/" + std::string(WORDS[r.below(12)]) + "/" + rep + "/" + fl, "", "s");
			if (r.chance(1, 2)) g.emit(g.good_range() + "s//" + rep + "/", "", "s");	// and the pattern remembered afterwards
			return;
		}
		if (k == 0) g.emit(rng + "s//" + rep + "/" + fl, "", "s");			// empty pattern: reuse
		else if (k == 1) g.emit(rng + "s/" + pat, "", "s");				// pattern only: delete first match
		else if (k == 2) g.emit(rng + "s/" + std::string(1, "abc"[r.below(3)]) + "*/" + rep + "/" + fl, "", "s");	// matches the empty string
		else if (k == 3) g.emit(rng + "s/^/" + rep + "/" + fl, "", "s");
		else if (k == 4) g.emit(rng + "s/$/" + rep + "/" + fl, "", "s");
		else if (k == 5) g.emit(rng + "s/\\<" + std::string(1, "abc"[r.below(3)]) + "/" + rep + "/" + fl, "", "s");
		else if (k == 6) g.emit(g.good_range() + "p", "", "p");
		else if (k == 7 && r.chance(1, 3)) g.emit(rng + "s/a\\/b/" + (r.chance(1, 2) ? "x|y" : "p\\/q") + "/" + fl, "", "s");	// escaped delimiter, then a bar
		else if (k == 7) g.emit(rng + "s/" + std::string(WORDS[r.below(12)]) + "/" + rep + "/" + fl, "", "s");	// literal fast path
		else g.emit(rng + "s/" + pat + "/" + rep + "/" + fl, "", "s");
	}

	void gen_c15_cmd(G &g)
	{
		Rng &r = g.r;
		if (r.chance(1, 10)) {
			// a global that fails before it starts (bad pattern) must leave no trace for the next one
			g.emit(std::string("g/") + (r.chance(1, 2) ? "(a" : "a{") + "/d", "", "g");
			g.emit("g/" + std::string(WORDS[r.below(12)]) + "/s/$/!/", "", "g");
			return;
		}
		if (r.chance(1, 12) && g.n() > 2 && g.n() <= 60) {
			// a nested global with a range of its own that covers lines the outer one has not visited yet
			// (small buffers only: every inner global sweeps the whole buffer for leftover marks, O(n^2) in all)
			std::string in = std::string(1, "abc"[r.below(3)]);
			g.emit(g.good_range() + "g/" + std::string(1, "abc"[r.below(3)]) + "/.,+1g/" + in + "/s/$/!/", "", "g");
			return;
		}
		if (r.chance(1, 10) && g.n() > 1) {
			// a command line that changes the buffer and then fails, right before the global
			g.emit(g.num_in_range() + "d|99p", "", "bar");
			saved_before_g = g.m;
		}
		std::string pat = r.chance(1, 2) ? std::string(WORDS[r.below(12)]) : gen_pattern(r);
		std::string head = g.good_range() + (r.chance(1, 3) ? (r.chance(1, 2) ? "v" : "g!") : "g") + "/" + pat + "/";
		int k = (int) r.below(13);
		std::string sub;
		bool text = false;
		if (k == 12) {
			// a list of two or three commands separated by |
			static const char *parts[] = {"s/a/Z/", "s/$/!/", "s/b/<&>/", "d", "-1d", "+1d", "s/^/#/", "+1s/$/+/"};
			sub = parts[r.below(8)];
			int more = (int) r.range(1, 2);
			for (int i = 0; i < more; i++) sub += std::string("|") + parts[r.below(8)];
		}
		else if (k == 0) sub = "d";
		else if (k == 1) sub = "s/" + std::string(1, "abc"[r.below(3)]) + "/<&>/";
		else if (k == 2) sub = "s/" + gen_pattern(r) + "/Q/g";
		else if (k == 3) { g.emit(g.good_range() + "y q", "", "y"); sub = "pu q"; }
		// (the two-address forms delete two lines at or above the visited one, so the scan for the next
		// marked line has to restart from a lower line than the one it was on)
		else if (k == 4) { static const char *up[] = {"-1d", "-1d", "-1,.d", "-2,-1d", "-2,.d"}; sub = up[r.below(5)]; }
		else if (k == 5) sub = ".,+1d";
		else if (k == 6) { g.emit(g.good_range() + "y q", "", "y"); sub = "-1pu q"; }
		else if (k == 7) sub = "+1s/a/Z/";
		else if (k == 8) sub = "g/" + std::string(1, "abc"[r.below(3)]) + "/s/$/!/";	// nested: applies to the outer's current line only
		else if (k == 9) { sub = "a"; text = true; }
		else if (k == 10) { sub = "i"; text = true; }
		else { sub = "c"; text = true; }
		std::string cmd = head + sub;
		std::string tx;
		if (!text) {
			// globals that put or duplicate can double the buffer each time: keep buffers small
			ExModel probe = g.m;
			probe.exec(cmd);
			if (probe.n() > 300) { sub = "d"; cmd = head + sub; }
		}
		if (text) {
			// one text block per execution: ask the model how many there will be
			ExModel probe = g.m;
			std::vector<std::string> many;
			for (int i = 0; i < 200; i++) { many.push_back("T" + std::to_string(i)); many.push_back("."); }
			probe.input = &many; probe.in_pos = 0;
			probe.exec(cmd);
			if (probe.n() > 300) { sub = "d"; cmd = head + sub; text = false; }	// (inserting globals compound too)
		}
		if (text) {
			ExModel probe = g.m;
			std::vector<std::string> many;
			for (int i = 0; i < 200; i++) { many.push_back("T" + std::to_string(i)); many.push_back("."); }
			probe.input = &many; probe.in_pos = 0;
			probe.exec(cmd);
			size_t blocks = probe.in_pos / 2;
			for (size_t i = 0; i < blocks; i++) tx += "T" + std::to_string(r.below(1000)) + (r.chance(1, 3) ? "\nU" + std::to_string(i) : "") + "\n.\n";
		}
		// (the state the undo returns to: the text before the global itself, not before the yank that may
		// precede it; and an undo brings back text, not registers)
		saved_before_g = g.m;
		g.emit(cmd, tx, "g");
		if (r.chance(2, 3)) {
			Step s; s.keys = std::string(g.vi ? ":" : "") + "u\n"; s.meta = Json::obj(); s.meta.set("k", "undo"); g.p.steps.push_back(s);
			auto regs_now = g.m.regs;
			g.m = saved_before_g; g.m.regs = regs_now; g.cur_known = false;
		}
	}
	ExModel saved_before_g;

	Plan generate(unsigned long long seed, int tier) override
	{
		Rng r(seed * 0x9e3779b97f4a7c15ull + (pid == "C06" ? 0xC06 : pid == "C14" ? 0xC14 : 0xC15));
		bool vi = pid == "C06" && r.chance(1, 5);
		Plan p = base_plan(pid.c_str(), seed, vi ? "vi" : "exs");
		p.rows = 24; p.cols = 100;
		// neatvi refuses :N,M!cmd on a modified buffer unless writeany is set (its own convention, like
		// autowrite); the property is about what the filter does to the addressed lines
		p.env.clear(); p.env.push_back({"EXINIT", "se wa"});
		G g(r, p, vi);
		FileSpec f; f.path = "F"; f.mtime = -100;
		int shape = (int) r.below(8);
		int nl = shape == 0 ? 0 : shape == 1 ? 1 : (int) r.range(2, pid == "C15" ? 40 : 14);
		for (int i = 0; i < nl; i++) f.data += gen_textline(r) + "\n";
		p.files.push_back(f);
		p.files.push_back({"R1", "r1 one\nr1 two\n", -100});
		p.files.push_back({"R2", "r2 no newline at end", -100});
		p.argv.push_back("F");
		g.files["R1"] = "r1 one\nr1 two\n"; g.files["R2"] = "r2 no newline at end";
		g.m.load(f.data);
		static const long caps[] = {1, 7, 64, 4096, 65536};
		p.knobs.pipe_cap = caps[r.below(5)];
		p.knobs.child_pace = r.chance(1, 2) ? 4096 : r.range(1, 30);
		p.knobs.stall_pct = r.chance(1, 4) ? (int) r.range(5, 40) : 0;
		p.knobs.read_policy = r.chance(1, 3) ? (int) r.range(1, 2) : 0;
		int nsteps = (int) r.range(5, tier ? 40 : 25);
		for (int i = 0; i < nsteps && g.m.n() <= 400; i++) {
			if (pid == "C06") gen_c06_cmd(g);
			else if (pid == "C14") { if (r.chance(1, 8)) gen_c06_cmd(g); else gen_c14_cmd(g); }
			else {
				if (r.chance(1, 3)) { gen_c06_cmd(g); continue; }
				saved_before_g = g.m;
				gen_c15_cmd(g);
			}
		}
		return p;
	}

	// ------------------------------------------------------------ oracle
	ExModel M;
	bool dead = false;
	std::set<int> unknown_regs;
	std::map<std::string, std::string> mfiles;
	std::vector<std::string> before_g;
	bool have_before_g = false;

	void begin(RunCtx &c) override
	{
		M = ExModel();
		dead = false;
		unknown_regs.clear();
		mfiles.clear();
		for (auto &f : c.plan.files) mfiles[f.path] = f.data;
		M.files = &mfiles;
		have_before_g = false;
		for (auto &f : c.plan.files) if (f.path == "F") M.load(f.data);
	}

	// what the statement does not pin down after a rejected command: the remembered pattern
	void follow_pattern(RunCtx &c)
	{
		char *kw = nullptr; int dir = 0;
		c.ed.ex_kwd(&kw, &dir);
		M.last_pat = dir && kw ? kw : "";
	}
	// where marks on lines that were themselves replaced (c, filters) end up is not in the statement either
	void follow_marks(RunCtx &c)
	{
		M.marks.clear();
		for (int mk = 'a'; mk <= 'z'; mk++) {
			int pos = -1;
			if (!c.ed.lbuf_jump(c.ed.ex_lbuf(), mk, &pos, nullptr) && pos >= 0 && pos < M.n()) M.marks[mk] = M.ln[(size_t) pos].id;
		}
	}
	// give up judging this step: the model takes over the editor's text, current line and marks
	void follow_editor(RunCtx &c)
	{
		M.ln.clear();
		for (auto &l : c.text()) M.ln.push_back({l, M.next_id++});
		M.cur = c.nlines() ? std::min(std::max(c.row() + 1, 0), c.nlines()) : 0;
		follow_pattern(c);
		M.marks.clear();
		for (int mk = 'a'; mk <= 'z'; mk++) {
			int pos = -1;
			if (!c.ed.lbuf_jump(c.ed.ex_lbuf(), mk, &pos, nullptr) && pos >= 0 && pos < M.n()) M.marks[mk] = M.ln[(size_t) pos].id;
		}
	}

	void compare_text(RunCtx &c, const std::string &ctx, const std::string &clsbase)
	{
		std::vector<std::string> now = c.text(), want = M.text();
		if (now == want) return;
		// the one corner the statement leaves open: an empty match at the very end of a line
		if (now.size() == want.size()) {
			bool all = true;
			for (size_t i = 0; i < now.size() && all; i++) {
				if (now[i] == want[i]) continue;
				auto it = M.alts.find(M.ln[i].id);
				if (it != M.alts.end() && it->second == now[i]) { M.ln[i].text = now[i]; c.count("eol_empty_match_accepted"); }
				else all = false;
			}
			if (all) return;
		}
		size_t i = 0;
		while (i < now.size() && i < want.size() && now[i] == want[i]) i++;
		std::string cls = clsbase + (now.size() != want.size() ? "/line-count-differs" : "/line-differs");
		if (i < now.size() && i < want.size() && !utf8_valid(now[i]) && utf8_valid(want[i])) cls = clsbase + "/invalid-utf8";
		if (M.skip_hazard && clsbase == "C15/g") cls = "C15/g/list-leaves-unvisited-line-above-scan";
		c.violate(cls, ctx + ": buffer has " + std::to_string(now.size()) + " lines, the reference " + std::to_string(want.size()) + "; first difference at line " + std::to_string(i + 1) +
			": got \"" + vis(i < now.size() ? now[i] : "<none>", 60) + "\" expected \"" + vis(i < want.size() ? want[i] : "<none>", 60) + "\"");
	}

	void quiescent(RunCtx &c, int after) override
	{
		if (dead) return;
		if (after < 0) { compare_text(c, "after reading F", pid + "/read"); return; }
		// The generator keeps buffers small with its own copy of the model, which undo steps can put out of
		// step with the editor; a global that puts a register then multiplies the buffer. The reference model
		// finds lines by identity in linear time, so such a plan is not judged further (and is counted).
		if (M.n() > 1500 || c.nlines() > 1500) { dead = true; c.count("plans_abandoned_buffer_beyond_1500_lines"); K.end_run(OUT_PLAN_END, "buffer beyond 1500 lines"); }
		const Step &s = c.plan.steps[(size_t) after];
		if (s.op != "keys") return;
		std::string kind = s.meta.str("k");
		bool vi = is_vi(c.plan);
		std::string keys = s.keys;
		if (vi && !keys.empty() && keys[0] == ':') keys = keys.substr(1);
		size_t nlp = keys.find('\n');
		std::string cmdline = keys.substr(0, nlp);
		std::vector<std::string> in = nlp == std::string::npos ? std::vector<std::string>() : split_lines(keys.substr(nlp + 1));
		std::string ctx = "step " + std::to_string(after) + " " + vis(cmdline, 60);
		if (kind == "undo") {
			if (!have_before_g) {
				// the global changed nothing, so this u undid some earlier command: follow the editor
				follow_editor(c);
				c.count("undo_followed");
				return;
			}
			// one undo step must bring back the text from before the global
			c.compared();
			c.count("global_undos_compared");
			std::vector<std::string> now = c.text();
			if (now != before_g) {
				size_t i = 0;
				while (i < now.size() && i < before_g.size() && now[i] == before_g[i]) i++;
				c.violate("C15/undo/not-one-step", ctx + ": one undo after the global must restore the text from before it; first difference at line " + std::to_string(i + 1) +
					" (" + std::to_string(now.size()) + " vs " + std::to_string(before_g.size()) + " lines)");
			}
			M.ln.clear();
			for (auto &l : before_g) M.ln.push_back({l, M.next_id++});
			follow_marks(c);	// (which marks an undo brings back is not this property's subject)
			M.cur = c.nlines() ? c.row() + 1 : 0;
			have_before_g = false;
			return;
		}
		if (kind == "!fail") {
			c.compared();
			c.count("filters_that_could_not_start");
			compare_text(c, ctx + " (fork failed: the command never ran, the buffer must be unchanged)", pid + "/!/fork-failed");
			M.cur = c.nlines() ? c.row() + 1 : 0;
			follow_marks(c);
			return;
		}
		std::vector<std::string> text_before = M.text();
		// registers written by a command that had to be rejected are not pinned by the statement (it
		// speaks of the buffer): a later use of such a register is followed, not judged
		// lines far beyond 80 characters approach the matcher's backtracking depth limit (256 levels: '.+'
		// needs one level per character); such comparisons are skipped and counted, not judged
		bool too_long = false;
		if (kind == "s" || kind == "g")
			for (auto &l : M.ln) if (l.text.size() > 120) too_long = true;
		bool uses_unknown = false;
		if ((kind == "pu" || kind == "@") && !unknown_regs.empty()) {
			size_t sp = cmdline.find_last_of(' ');
			int rg = sp == std::string::npos || sp + 1 >= cmdline.size() ? 0 : (unsigned char) cmdline[sp + 1];
			uses_unknown = unknown_regs.count(tolower(rg)) || unknown_regs.count(rg) || (rg == 0 && unknown_regs.count(0));
		}
		if (too_long || uses_unknown || (M.n() == 0 && (kind == "!" || kind == "c"))) {
			// excluded corner (see excluded_corners): no line exists; follow the editor
			c.count(too_long ? "depth_limit_discards" : uses_unknown ? "followed_unknown_register" : "excluded_empty_buffer_" + kind);
			follow_editor(c);
			if (kind == "c") { M.input = &in; M.in_pos = 0; M.input = nullptr; }
			return;
		}
		mfiles.clear();
		for (auto &kv : K.fs) mfiles[kv.first] = kv.second.data;
		M.input = &in; M.in_pos = 0;
		M.visited.clear();
		M.skip_hazard = false;
		M.alts.clear();
		ExResult R;
		if (kind == "bar") {
			size_t b = cmdline.find('|');
			R = M.exec(cmdline.substr(0, b));
			ExResult r2 = M.exec(cmdline.substr(b + 1));
			R.out += r2.out;
			R.out_defined = false;
			R.row_defined = false;
			R.rejected = false;
		} else R = M.exec(cmdline);
		// text lines the command did not take are read as commands by the editor: so does the reference
		while (M.in_pos < in.size() && !M.starved) {
			std::string extra = in[M.in_pos++];
			ExResult r2 = M.exec(extra);
			R.out += r2.out;
			R.out_defined = false;		// unknown commands print messages
			if (!r2.row_defined || r2.rejected) R.row_defined = false;
			c.count("leftover_text_lines_run_as_commands");
		}
		M.input = nullptr;
		M.pending_soft = false;
		if (M.overflow) { dead = true; c.count("plans_abandoned_buffer_beyond_1500_lines"); K.end_run(OUT_PLAN_END, "buffer beyond 1500 lines"); }
		if (M.murky) {
			// a register body or | list went on after a command that did nothing on line 0: where the current
			// line is for the rest of it is not defined by the reference
			dead = true;
			c.count("plans_continuing_after_a_soft_rejection");
			return;
		}
		if (M.starved) {
			// the plan gives the command fewer text blocks than the reference needs (only minimised or
			// drifted plans do): the editor then reads the following steps as text; nothing is comparable
			dead = true;
			c.count("text_starved_plans");
			return;
		}
		c.compared();
		c.count("cmd_" + kind + (R.rejected ? "_rejected" : ""));
		if (kind == "d" || kind == "y") {
			size_t sp = cmdline.find_last_of(' ');
			int rg = sp == std::string::npos || sp + 1 >= cmdline.size() ? 0 : (unsigned char) cmdline[sp + 1];
			if (R.rejected) { unknown_regs.insert(tolower(rg)); unknown_regs.insert(0); for (int d = '1'; d <= '9'; d++) unknown_regs.insert(d); }
			else unknown_regs.erase(tolower(rg));
		}
		if (kind == "g") { before_g = text_before; have_before_g = !R.rejected && M.text() != text_before; c.count("global_visits", (long) M.visited.size()); }
		else if (kind != "p" && kind != "=" && kind != "k" && kind != "y") have_before_g = false;
		if (getenv("NVSIM_DEBUG"))
			fprintf(stderr, "%s: model %s cur=%d n=%d | editor row=%d n=%d out=%s\n", ctx.c_str(), R.rejected ? ("REJ " + R.why).c_str() : "ok", M.cur, M.n(), c.row() + 1, c.nlines(), vis(c.step_output(), 60).c_str());
		std::string base = pid + "/" + (R.rejected ? "rejected" : kind);
		compare_text(c, ctx + (R.rejected ? " (must be rejected: " + R.why + ")" : ""), base);
		if (!vi && !R.rejected && R.out_defined) {
			std::string got = c.step_output();
			if (got != R.out) {
				c.violate(pid + "/" + kind + "/output-differs", ctx + ": printed \"" + vis(got, 80) + "\", the reference prints \"" + vis(R.out, 80) + "\"");
			}
		}
		if (R.rejected) follow_pattern(c);
		if (!R.rejected && (kind == "c" || kind == "!" || kind == "g" || kind == "@")) follow_marks(c);
		int n = c.nlines();
		// (in visual mode there is no "line 0": where the cursor lands then is not the ex reference's business)
		if (!R.rejected && R.row_defined && n > 0 && !(vi && M.cur == 0)) {
			int want = M.cur;
			if (c.row() + 1 != want)
				c.violate(pid + "/" + kind + "/current-line-differs", ctx + ": current line is " + std::to_string(c.row() + 1) + ", the reference semantics give " + std::to_string(M.cur));
		} else {
			// not pinned down by the statement: follow the editor
			M.cur = n ? std::min(std::max(c.row() + 1, 0), n) : 0;
		}
		Fnv h; for (auto &l : M.ln) h.str(l.text);
		h.num((unsigned long long) M.cur);
		c.state(h.h);
	}
};

CheckReg reg06(new ExCheck("C06"));
CheckReg reg14(new ExCheck("C14"));
CheckReg reg15(new ExCheck("C15"));

} // namespace
