// C07 — vi cursor motions land where the reference motion semantics say.
// Honest note (DESIGN.md): nothing in a motion touches the environment; the
// simulator contributes the executor, probes, minimisation and replay.  The
// deciding power is (a) invariants after every motion, (b) ViModel.
#include "common.h"
#include "../models/vimodel.h"
#include <set>

namespace {

struct C07 : Check {
	const char *id() const override { return "C07"; }
	std::string rule() const override {
		return "'vi -v' sessions of 1..30 motions (h l j k 0 ^ $ | w b e W B E f F t T ; , G + - _ % { } H M L with counts) from seeded start positions over texts of ASCII words, punctuation, blanks, tabs, Latin-1, wide and combining characters, empty lines and the empty buffer, window heights 3..40. "
			"After every motion: (invariants) the cursor is on an existing line and an existing character, never the terminator of a non-empty line, the text is unchanged, the terminal cursor row is the cursor line's; "
			"(reference) line and character equal ViModel's, including 'stays in place when the motion fails' and the sticky column of j/k in display columns; H M L take the top line from the probe. non-trivial = at least one motion compared; distinct = distinct event-log fingerprints";
	}
	std::vector<std::string> assumptions() const override {
		return {"left-to-right text only (no Arabic): direction changes what h and l mean",
			"counts on j k + - _ G stay within the buffer in the reference clause (POSIX: the motion fails beyond; neatvi clamps to the first/last line) - see excluded corners",
			"no blank-only lines (neatvi treats them like empty lines for w; POSIX does not say)"};
	}
	std::vector<std::string> excluded() const override {
		return {"H / L with a count larger than the window height",
			"$ followed by j / k (POSIX: stay at the ends of the lines; neatvi: the column of that end) - the model uses the column",
			"j k + - _ G with a count that leaves the buffer (POSIX: fails; neatvi: clamps): invariants only",
			"N$ with a count (POSIX moves down N-1 lines; neatvi ignores the count)",
			"; or , after t / T when the target is adjacent (traditional vi: the cursor does not move)"};
	}

	static std::string gen_line7(Rng &r)
	{
		int k = (int) r.below(10);
		if (k == 0) return "";
		std::string s;
		int nw = (int) r.range(1, 7);
		for (int i = 0; i < nw; i++) {
			if (i) s += r.chance(1, 6) ? "\t" : r.chance(1, 5) ? "  " : " ";
			int w = (int) r.below(13);
			static const char *ws[] = {"foo", "bar.baz", "x", "(a[1])", "{b}", "a_b", "qux,", "--", "if(x)", "z9"};
			if (w < 10) s += ws[w];
			else if (w == 10) s += utf8_enc(0xe9) + "t" + utf8_enc(0x4e2d) + utf8_enc(0x6587);
			else if (w == 11) s += "o" + utf8_enc(0x301) + "k";
			else {
				// double-width characters from every block of the width table: Hangul Jamo and syllables, kana,
				// CJK extension A, compatibility ideographs, fullwidth forms
				static const unsigned wide[] = {0x1100, 0xd55c, 0xae00, 0x3042, 0x30ab, 0x3400, 0xf900, 0xff21, 0xff42, 0xa000};
				s += utf8_enc(wide[r.below(10)]) + utf8_enc(wide[r.below(10)]) + "a";
			}
		}
		if (r.chance(1, 8)) s = "\t" + s;
		if (r.chance(1, 8)) s = "  " + s;
		return s;
	}

	Plan generate(unsigned long long seed, int tier) override
	{
		Rng r(seed * 0x9e3779b97f4a7c15ull + 0xC07);
		Plan p = base_plan("C07", seed, "vi");
		p.rows = (int) r.range(3, 40); p.cols = (int) r.range(30, 140);
		FileSpec f; f.path = "F"; f.mtime = -100;
		int nl = r.chance(1, 12) ? 0 : (int) r.range(1, 60);
		for (int i = 0; i < nl; i++) f.data += gen_line7(r) + "\n";
		p.files.push_back(f);
		p.argv.push_back("F");
		int nsteps = (int) r.range(1, tier ? 40 : 30);
		for (int i = 0; i < nsteps; i++) {
			Step s; s.meta = Json::obj();
			static const char *ms[] = {"h", "l", "j", "k", "0", "^", "$", "|", "w", "b", "e", "W", "B", "E", "f", "F", "t", "T", ";", ",", "G", "+", "-", "_", "%", "{", "}", "H", "M", "L"};
			std::string m = ms[r.below(30)];
			long cnt = 0;
			if (r.chance(1, 3) && m != "0" && m != "$" && m != "%" && m != "M") cnt = r.range(1, m == "|" ? 60 : m == "G" ? (nl ? nl : 1) : 6);
			if (m == "|" && !cnt) cnt = r.range(1, 40);
			std::string arg;
			if (m == "f" || m == "F" || m == "t" || m == "T") {
				static const char *targets[] = {"a", "o", ".", "(", " ", "x", "z", "\t", "]"};
				arg = r.chance(1, 8) ? utf8_enc(r.chance(1, 2) ? 0x4e2d : 0xe9) : std::string(targets[r.below(9)]);
			}
			s.keys = (cnt ? std::to_string(cnt) : "") + m + arg;
			s.meta.set("m", m + arg).set("cnt", cnt);
			p.steps.push_back(s);
		}
		return p;
	}

	vim::Model M;
	std::vector<std::string> text0;
	bool synced = false;

	void begin(RunCtx &) override { M = vim::Model(); text0.clear(); synced = false; xalts.clear(); prev_top = 0; }

	void quiescent(RunCtx &c, int after) override
	{
		std::vector<std::string> text = c.text();
		int top_before = prev_top;
		prev_top = c.top();
		if (after < 0) {
			text0 = text;
			M.b.clear();
			for (auto &l : text) M.b.push_back(vim::dec(l));
			M.c.row = c.row(); M.c.off = c.off();
			M.xcol = M.col_of(M.c.row, M.c.off);
			return;
		}
		const Step &s = c.plan.steps[(size_t) after];
		std::string m = s.meta.str("m");
		long cnt = s.meta.num("cnt");
		std::string ctx = "step " + std::to_string(after) + " " + vis(s.keys, 20) + " from line " + std::to_string(M.c.row + 1) + " char " + std::to_string(M.c.off);
		int row = c.row(), off = c.off(), n = (int) text.size();
		c.compared();
		// ---- invariants (sentence 2 of the statement)
		if (text != text0) c.violate("C07/invariant/text-changed", ctx + ": a motion changed the text");
		if (n == 0) { if (row != 0) c.violate("C07/invariant/row-out-of-range", ctx + ": empty buffer but the cursor line is " + std::to_string(row + 1)); return; }
		if (row < 0 || row >= n) c.violate("C07/invariant/row-out-of-range", ctx + ": cursor line " + std::to_string(row + 1) + " of " + std::to_string(n));
		int len = (int) vim::dec(text[(size_t) row]).size();
		if (off < 0 || (len == 0 ? off != 0 : off >= len))
			c.violate(len && off == len ? "C07/invariant/on-line-terminator" : "C07/invariant/off-out-of-range", ctx + ": cursor at character " + std::to_string(off) + " of a line with " + std::to_string(len) + " characters");
		if (K.vt.cr != row - c.top()) c.violate("C07/invariant/terminal-cursor-row", ctx + ": terminal cursor on row " + std::to_string(K.vt.cr) + ", cursor line is on row " + std::to_string(row - c.top()));
		// ---- reference (sentence 1)
		std::string base = m.substr(0, 1);
		bool beyond = false;
		long k = cnt ? cnt : 1;
		if (base == "j" || base == "+") beyond = M.c.row + k >= n;
		if (base == "k" || base == "-") beyond = M.c.row - k < 0;
		if (base == "_") beyond = M.c.row + k - 1 >= n;
		if (base == "G") beyond = cnt > n;
		if ((base == "H" || base == "L") && k > K.rows - 1) beyond = true;	// a count larger than the window
		// ; or , after t / T is an excluded corner only when the target is the very next character in the
		// direction of the repeat (traditional vi stays, others skip to the next occurrence)
		bool adjacent_t = false;
		if ((m == ";" || m == ",") && (M.fcmd == 't' || M.fcmd == 'T') && M.c.row < n) {
			int d = (M.fcmd == 't') == (m == ";") ? 1 : -1;
			int p = M.c.off + d;
			adjacent_t = p >= 0 && p < M.len(M.c.row) && M.b[(size_t) M.c.row][(size_t) p] == M.fch;
		}
		M.top = c.top() ; M.rows = K.rows - 1;
		if (beyond || adjacent_t) {
			c.count("excluded_corner_followed");
			// the column j/k aim for is kept by j/k themselves and by a motion that did not move
			bool movedh = row != M.c.row || off != M.c.off;
			M.c.row = row; M.c.off = off;
			if (base != "j" && base != "k" && movedh) { M.xcol = M.col_of(row, off); xalts.clear(); }
			else if (base != "j" && base != "k" && M.col_of(row, off) != M.xcol) xalts.insert(M.col_of(row, off));
			return;
		}
		// H M L are defined relative to the window as it was when the key was typed
		if (base == "H" || base == "M" || base == "L") M.top = top_before;
		vim::Pos before = M.c;
		int xcol_before = M.xcol;
		bool ok = M.motion(m, (int) k, cnt > 0);
		if (!ok) M.c = before;
		// The column j/k aim for after a motion that FAILED is not defined by the reference (kept, or
		// reset to the cursor's): both are carried until a j/k shows which one the editor uses.
		if ((base == "j" || base == "k") && ok && !xalts.empty() && (row != M.c.row || off != M.c.off)) {
			for (int xa : xalts) {
				vim::Model A = M; A.c = before; A.xcol = xa;
				if (A.motion(m, (int) k, cnt > 0) && A.c.row == row && A.c.off == off) { M = A; c.count("sticky_column_after_failure_resolved"); break; }
			}
			xalts.clear();
		}
		if (!ok && base != "j" && base != "k") {
			int here = M.col_of(M.c.row, M.c.off);
			M.xcol = xcol_before;
			if (here != M.xcol) xalts.insert(here);
		} else if (ok && base != "j" && base != "k")
			xalts.clear();
		c.count(ok ? "motions_compared" : "failing_motions_compared");
		if (row != M.c.row || off != M.c.off) {
			std::string cls = "C07/motion/" + (base == "\n" ? std::string("nl") : base == " " ? std::string("sp") : base) + (ok ? "/wrong-position" : "/moved-though-failing");
			c.violate(cls, ctx + ": reference " + (ok ? "lands on" : "fails, cursor stays on") + " line " + std::to_string(M.c.row + 1) + " char " + std::to_string(M.c.off) +
				", the editor's cursor is on line " + std::to_string(row + 1) + " char " + std::to_string(off) + " (line: \"" + vis(text[(size_t) M.c.row], 50) + "\")");
		}
		Fnv h; h.num((unsigned long long) row * 4096 + (unsigned long long) off);
		c.state(h.h);
	}
	int prev_top = 0;
	std::set<int> xalts;	// other columns j/k may aim for (after motions that failed)
};

CheckReg reg(new C07);

} // namespace
