// C01 — Write-out equals buffer text; read-then-write reproduces the file.
// Byte-exact file oracle under short reads, short writes and pre-existing
// targets, with boundary-biased sizes.  No error faults here (those are C03).
#include "common.h"

namespace {

struct C01 : Check {
	const char *id() const override { return "C01"; }
	std::string rule() const override {
		return "plans from VERIF_SEED: a NUL-free file (bytes 1..255 in 'vi -s -e', valid UTF-8 in 'vi -v'; line lengths biased to 1023..1026/4093..4098/8191..8193, "
			"line counts biased to 511..513/1023..1025/2047..2049, final newline present/absent, empty) is read under a short-read policy, optionally edited, "
			"and written (:w, :w! other, :a,bw! other, :wq, %p) under a short-write policy onto targets that are absent/shorter/equal/longer; "
			"after every write the simulated file's bytes and length must equal the concatenation of the written lines. "
			"non-trivial = at least one byte-exact comparison made; distinct = distinct event-log fingerprints";
	}
	std::vector<std::string> assumptions() const override {
		return {"the probe (lbuf_get/lbuf_len) is tied to bytes: right after the read it must equal the file split at newlines",
			"an addressless :w of an empty buffer writes zero lines (the target ends up empty); a range on an empty buffer is rejected and compares nothing"};
	}

	static std::string gen_file(Rng &r, bool utf8_only, int tier, Json &note)
	{
		std::string data;
		int shape = (int) r.below(10);
		Alpha al = utf8_only ? (r.chance(1, 2) ? A_UTF8_MIX : A_ASCII_WORDS) : (r.chance(1, 2) ? A_BYTES : A_LOWER);
		long nlines;
		if (shape == 0) { note.set("shape", "empty"); return ""; }
		if (shape <= 3) {			// few lines, some at buffer boundaries
			nlines = r.range(1, 12);
			for (long i = 0; i < nlines; i++) {
				long len = r.chance(1, 3) ? boundary_len(r) + (r.chance(1, 4) ? r.range(-3, 3) : 0) : r.range(0, 90);
				if (tier == 0 && len > 5000 && r.chance(1, 2)) len = r.range(4090, 4100);
				data += gen_line(r, len, al);
				data += '\n';
			}
			note.set("shape", "boundary-lines");
		} else if (shape <= 5) {		// many short lines: line table growth
			static const long cnt[] = {510, 511, 512, 513, 514, 1023, 1024, 1025, 2047, 2048, 2049};
			nlines = cnt[r.below(tier ? 11 : 8)];
			for (long i = 0; i < nlines; i++) { data += gen_line(r, r.range(0, 6), A_LOWER); data += '\n'; }
			note.set("shape", "many-lines");
		} else if (shape <= 7) {		// batch boundary: totals around 4096
			long total = 0, target = 4096 * r.range(1, 3) + r.range(-4, 4);
			while (total < target) {
				long len = r.range(0, 400);
				if (total + len + 1 > target) len = target - total - 1;
				if (len < 0) len = 0;
				data += gen_line(r, len, al == A_BYTES ? A_BYTES : A_LOWER);
				data += '\n';
				total = (long) data.size();
			}
			note.set("shape", "batch-boundary");
		} else {
			nlines = r.range(1, 40);
			for (long i = 0; i < nlines; i++) { data += gen_line(r, r.range(0, 60), al); data += '\n'; }
			note.set("shape", "ordinary");
		}
		if (!data.empty() && r.chance(1, 3)) { data.pop_back(); note.set("final_newline", false); }
		// a line that is empty at the very end (file ends with two newlines) is a legal shape too
		if (r.chance(1, 10)) data += "\n";
		return data;
	}

	Plan generate(unsigned long long seed, int tier) override
	{
		Rng r(seed * 0x9e3779b97f4a7c15ull + 0xC01);
		bool vi = r.chance(1, 4);
		Plan p = base_plan("C01", seed, vi ? "vi" : "exs");
		p.rows = 24; p.cols = 80;
		Json note = Json::obj();
		std::string data = gen_file(r, vi, tier, note);
		if (vi && data.size() > 60000) data.resize(60000);	// keep repaint cost sane; still crosses all boundaries
		if (vi && !utf8_valid(data)) data = "plain\n";
		p.meta = note;
		p.files.push_back({"F", data, -100});
		// knobs: legal-but-unusual transfer sizes
		p.knobs.read_policy = (int) r.below(4);
		if (p.knobs.read_policy == 3) { static const long n[] = {1, 2, 7, 1023, 1000, 512}; p.knobs.read_n = n[r.below(6)]; }
		p.knobs.write_policy = (int) r.below(5);
		if (p.knobs.write_policy == 3) { static const long n[] = {1, 3, 1000, 4095, 777, 4096}; p.knobs.write_n = n[r.below(6)]; }
		if (data.size() > 200000 && (p.knobs.read_policy == 1 || p.knobs.write_policy == 1)) { p.knobs.read_policy = 3; p.knobs.read_n = 1000; p.knobs.write_policy = 2; }
		bool by_argv = r.chance(1, 2);
		if (by_argv) p.argv.push_back("F");
		else { Step s = ex_step(p, "e F"); s.meta = Json::obj(); s.meta.set("k", "open"); p.steps.push_back(s); }
		long nl = (long) file_lines(data).size();
		int nops = (int) r.range(1, 4);
		bool edited = false;
		for (int i = 0; i < nops; i++) {
			if (r.chance(1, 8)) {
				// another process rewrites F (shorter, longer or EMPTY) and the user reloads it: the buffer must be
				// that file, also when nothing at all can be read from it
				std::string nd;
				int w = (int) r.below(4);
				if (w == 1) nd = gen_line(r, r.range(1, 40), A_LOWER) + "\n";
				else if (w == 2) nd = data + gen_line(r, r.range(1, 40), A_LOWER) + "\n";
				else if (w == 3) nd = data.substr(0, data.size() / 2);
				Step t; t.op = "touch"; t.path = "F"; t.data = nd; t.n1 = 0; t.meta = Json::obj(); t.meta.set("k", "touch");
				p.steps.push_back(t);
				Step e = ex_step(p, "e!"); e.meta = Json::obj(); e.meta.set("k", "open"); e.meta.set("now", nd);
				p.steps.push_back(e);
				nl = (long) file_lines(nd).size();
				edited = false;
				continue;
			}
			int k = (int) r.below(10);
			Step s;
			Json m = Json::obj();
			if (k < 2 && nl > 0) {				// an edit that shifts the line table
				long at = r.range(1, nl);
				if (r.chance(1, 2)) { s = ex_step(p, std::to_string(at) + "d"); nl--; }
				else {
					s = ex_step(p, std::to_string(at) + "a");
					int add = (int) r.range(1, 3);
					for (int j = 0; j < add; j++) s.keys += gen_line(r, r.range(0, 30), A_LOWER) + "\n";
					s.keys += ".\n";
					if (vi) {	// in vi mode text is entered through the insert command instead
						s = keys_step(std::to_string(at) + "Go" + gen_line(r, r.range(1, 20), A_LOWER) + "\x1b");
						add = 1;
					}
					nl += add;
				}
				m.set("k", "edit");
				edited = true;
			} else if (k < 4) {				// whole buffer to its own path
				s = ex_step(p, edited || r.chance(1, 2) ? "w" : "w!");
				m.set("k", "write").set("path", "F").set("whole", true);
			} else if (k < 7) {				// whole buffer to another path
				std::string g = "G" + std::to_string(r.below(3));
				prepare_target(p, r, g, data.size());
				s = ex_step(p, "w! " + g);
				m.set("k", "write").set("path", g).set("whole", true);
			} else if (k < 9 && nl > 0) {			// a range to another path
				long a = r.range(1, nl), b = r.range(a, nl);
				if (r.chance(1, 4)) { a = 1; }
				if (r.chance(1, 4)) { b = nl; }
				std::string g = "G" + std::to_string(r.below(3));
				prepare_target(p, r, g, data.size());
				s = ex_step(p, std::to_string(a) + "," + std::to_string(b) + "w! " + g);
				m.set("k", "write").set("path", g).set("a", a).set("b", b);
			} else if (!vi) {
				s = ex_step(p, "%p");
				m.set("k", "print");
			} else continue;
			s.meta = m;
			p.steps.push_back(s);
		}
		if (r.chance(1, 3)) {
			Step s = ex_step(p, "wq");
			Json m = Json::obj();
			m.set("k", "write").set("path", "F").set("whole", true).set("quit", true);
			s.meta = m;
			p.steps.push_back(s);
		}
		return p;
	}

	static void prepare_target(Plan &p, Rng &r, const std::string &g, size_t about)
	{
		for (auto &f : p.files)
			if (f.path == g) return;
		int k = (int) r.below(4);
		if (k == 0) return;	// absent
		long len = k == 1 ? (long) r.range(0, (long) about / 2) : k == 2 ? (long) about : (long) about + r.range(1, 5000);
		FileSpec f;
		f.path = g; f.mtime = -50;
		f.data = std::string((size_t) len, '#');
		for (size_t i = 63; i < f.data.size(); i += 64) f.data[i] = '\n';
		p.files.push_back(f);
	}

	// state of one run
	std::vector<std::string> before;	// probed text at the previous quiescent point
	bool have_before = false;
	std::string f_at_open;

	void begin(RunCtx &c) override
	{
		before.clear(); have_before = false;
		f_at_open.clear();
		for (auto &f : c.plan.files) if (f.path == "F") f_at_open = f.data;
	}

	void check_write(RunCtx &c, const Json &m, bool at_exit)
	{
		if (!have_before) return;
		std::string path = m.str("path");
		long a = m.boolean("whole") ? 1 : m.num("a"), b = m.boolean("whole") ? (long) before.size() : m.num("b");
		bool exists;
		std::string got = c.file(path, &exists);
		if (before.empty()) {
			// an addressless :w of an empty buffer writes zero lines: the target must exist and be empty;
			// a range on an empty buffer addresses no line and is rejected (nothing to compare)
			if (!m.boolean("whole")) { c.count("range_on_empty_buffer"); return; }
			c.compared();
			c.count("empty_buffer_writes_compared");
			if (!exists || !got.empty())
				c.violate("C01/write/not-truncated", "writing an empty buffer to " + path + " must leave an empty file; it " + (exists ? "holds " + std::to_string(got.size()) + " bytes" : "does not exist"));
			return;
		}
		if (a < 1 || b > (long) before.size() || a > b) return;	// generator keeps ranges valid against its own estimate only
		std::string want = join_lines(before, (size_t) (a - 1), (size_t) b);
		c.compared();
		c.count(m.boolean("whole") ? "whole_writes_compared" : "range_writes_compared");
		if (!exists) c.violate("C01/write/file-missing", "after " + vis(c.plan.steps[(size_t) c.cur].keys) + " the target " + path + " does not exist");
		if (got != want) {
			std::string cls = got.size() > want.size() && !got.compare(0, want.size(), want) ? "C01/write/not-truncated" :
				got.size() < want.size() && !want.compare(0, got.size(), got) ? "C01/write/cut-short" : "C01/write/wrong-bytes";
			c.violate(cls, std::string(at_exit ? "at exit, " : "") + "file " + path + " after writing lines " + std::to_string(a) + ".." + std::to_string(b) + ": " + first_diff(got, want));
		}
	}

	void quiescent(RunCtx &c, int after) override
	{
		std::vector<std::string> now = c.text();
		bool opened_by_argv = c.plan.argv.size() > 3 || (c.plan.argv.size() > 2 && c.plan.argv.back() == "F");
		if ((after == -1 && opened_by_argv) || (after >= 0 && c.plan.steps[(size_t) after].meta.str("k") == "open")) {
			// right after the read: the buffer is the file split at newlines
			if (after >= 0 && c.plan.steps[(size_t) after].meta.has("now")) f_at_open = c.plan.steps[(size_t) after].meta.str("now");
			std::vector<std::string> want = file_lines(f_at_open);
			c.compared();
			c.count("reads_compared");
			if (now != want) {
				size_t i = 0;
				while (i < now.size() && i < want.size() && now[i] == want[i]) i++;
				c.violate("C01/read/text-differs", "after reading F the buffer has " + std::to_string(now.size()) + " lines, the file " + std::to_string(want.size()) +
					"; first differing line " + std::to_string(i + 1));
			}
		}
		if (after >= 0) {
			const Step &s = c.plan.steps[(size_t) after];
			std::string k = s.meta.str("k");
			if (k == "write") check_write(c, s.meta, false);
			if (k == "print" && have_before) {
				std::string want = join_lines(before);
				std::string got = c.step_output();
				c.compared();
				c.count("prints_compared");
				if (got != want) c.violate("C01/print/wrong-bytes", "%p output: " + first_diff(got, want));
			}
		}
		before = now; have_before = true;
		Fnv h; for (auto &l : now) h.str(l);
		c.state(h.h);
	}

	void finish(RunCtx &c) override
	{
		// a :wq ends the run inside the step: compare at exit
		if (c.cur >= 0 && c.cur < c.nsteps) {
			const Step &s = c.plan.steps[(size_t) c.cur];
			if (s.meta.str("k") == "write" && s.meta.boolean("quit") && (c.res.outcome == OUT_RETURNED || c.res.outcome == OUT_EXITED))
				check_write(c, s.meta, true);
		}
		if (f_at_open.empty() && c.res.comparisons > 0) c.count("empty_file_roundtrips");
	}
};

CheckReg reg(new C01);

} // namespace
