// C16 (second sentence only) — a buffer that is valid UTF-8 remains valid UTF-8 under any
// command that does not itself insert raw bytes.  Monitored as an invariant at
// every quiescent point of a workload of character-wise commands over 2-, 3-
// and 4-byte characters, each key arriving as separate one-byte reads; every
// file written and every register must be valid UTF-8 as well, and no
// character may appear that was neither in the files nor typed.
#include "common.h"
#include <set>

namespace {

struct C16 : Check {
	const char *id() const override { return "C16"; }
	std::string rule() const override {
		return "'vi -v' (and some 'vi -s -e') sessions over lines of 1-4 byte characters (Latin-1, CJK, emoji, Arabic, combining): character-wise commands x X r<mb> ~ p P cw dw D s S J, f/t/F/T with multi-byte targets, ; , h l w b e $ 0 |, "
			"inserts of multi-byte text with ^H ^W ^U ^V<mb>, . and counts, yanks into registers and puts, :s with . and sets, / searches, u and ^R, then :w; in a third of the vi plans SIGWINCH arrives at a seeded system call of a step, also interrupting the poll() between two bytes of one character. Invariants at every quiescent point: every buffer line, every register a-z 0-9 and unnamed, and every file the editor wrote is strictly valid UTF-8 "
			"(no overlongs, no surrogates, <= U+10FFFF), and every character in the buffer is one that occurred in the files or in the typed text (no character is created by cutting others). The first sentence of C16 (helper algebra over all scalar values) is NOT decided here. "
			"non-trivial = at least one invariant evaluation after a modifying step; distinct = distinct event-log fingerprints";
	}
	std::vector<std::string> assumptions() const override {
		return {"files and typed text are valid UTF-8; ^V is followed by a whole character (the editor then inserts that character)",
			"filters are not used here (their output is the filter's responsibility)",
			"this check decides only the consequence clause of C16; the agreement of uc_len/uc_code/uc_chr/... with code-point segmentation for all scalar values is a statement about pure functions and is outside this technique"};
	}

	static std::string mbchar(Rng &r)
	{
		static const unsigned cps[] = {0xe9, 0xfc, 0x4e2d, 0x4e16, 0x1f600, 0x1f642, 0x627, 0x628, 0x301, 0x20ac, 0x10348, 0x7ff, 0x800, 0xffff, 0x10000, 0x10ffff, 0x80};
		return utf8_enc(cps[r.below(sizeof cps / sizeof cps[0])]);
	}
	static std::string mbtext(Rng &r, int n)
	{
		std::string s;
		for (int i = 0; i < n; i++) s += r.chance(1, 2) ? mbchar(r) : std::string(1, "ab c.d"[r.below(6)]);
		return s;
	}

	Plan generate(unsigned long long seed, int tier) override
	{
		Rng r(seed * 0x9e3779b97f4a7c15ull + 0xC16);
		bool vi = !r.chance(1, 6);
		Plan p = base_plan("C16", seed, vi ? "vi" : "exs");
		p.rows = (int) r.range(4, 30); p.cols = (int) r.range(10, 100);
		FileSpec f; f.path = "F"; f.mtime = -100;
		int nl = (int) r.range(1, 10);
		for (int i = 0; i < nl; i++) f.data += mbtext(r, (int) r.range(0, 24)) + "\n";
		// now and then a line longer than the fixed-size copies the editor makes of a line (1 KiB), multi-byte
		// characters across that boundary
		bool longline = vi && r.chance(1, 25);
		if (longline) { std::string l = std::string((size_t) r.range(1000, 1030), 'a'); for (int i = 0; i < 30; i++) l += mbchar(r); f.data = l + "\n" + f.data; }
		p.files.push_back(f);
		p.argv.push_back("F");
		bool hist = vi && r.chance(1, 3);
		p.env.clear(); p.env.push_back({"EXINIT", hist ? "se hist=8" : r.chance(1, 4) ? "se noic" : ""});
		int nsteps = (int) r.range(4, tier ? 50 : 30);
		for (int i = 0; i < nsteps; i++) {
			Step s; s.meta = Json::obj();
			std::string c = r.chance(1, 4) ? std::to_string(r.range(2, 4)) : "";
			std::string rg = r.chance(1, 5) ? "\"" + std::string(1, (char) ('a' + r.below(3))) : "";
			if (!vi) {
				// the last three can match the empty string: the substitute then steps over one character by hand
				static const char *pats[] = {".", "..", "[^a]", ".$", "^.", "a.", ".b", "x*", "a*", "b*$"};
				int k = (int) r.below(4);
				if (k == 0) s.keys = "%s/" + std::string(pats[r.below(10)]) + "/" + mbchar(r) + "/" + (r.chance(1, 2) ? "g" : "") + "\n";
				else if (k == 1) s.keys = "%s/" + mbchar(r) + "/" + mbtext(r, 2) + "/g\n";
				else if (k == 2) s.keys = "s/\\(" + std::string(pats[r.below(7)]) + "\\)/<\\0>/\n";
				else s.keys = std::to_string(r.range(1, nl)) + "a\n" + mbtext(r, (int) r.range(1, 10)) + "\n.\n";
				s.meta.set("k", "mod");
				p.steps.push_back(s);
				continue;
			}
			int k = (int) r.below(30);
			if (hist && r.chance(1, 6)) {
				// command-line history: a long earlier line, then its completion with ^A (clipped to the
				// 64-byte suggestion buffer, which must not cut a character)
				std::string longrep = mbtext(r, (int) r.range(20, 40));
				for (auto &ch : longrep) if (ch == '.' || ch == ' ') ch = 'q';
				std::string pre = std::string(1, "abcd"[r.below(4)]);
				s.keys = ":s/" + pre + "/" + longrep + "/\n";
				s.meta.set("k", "mod");
				p.steps.push_back(s);
				Step t; t.meta = Json::obj(); t.meta.set("k", "mod");
				t.keys = "j:s/" + pre + "\x01\n";
				p.steps.push_back(t);
				continue;
			}
			switch (k) {
			case 0: s.keys = rg + c + "x"; break;
			case 1: s.keys = rg + c + "X"; break;
			case 2: s.keys = c + "r" + mbchar(r); break;
			case 3: s.keys = c + "~"; break;
			case 4: s.keys = rg + c + "p"; break;
			case 5: s.keys = rg + c + "P"; break;
			case 6: s.keys = rg + "cw" + mbtext(r, (int) r.range(1, 5)) + "\x1b"; break;
			case 7: s.keys = rg + "d" + c + "w"; break;
			case 8: s.keys = rg + "D"; break;
			case 9: s.keys = c + "s" + mbtext(r, (int) r.range(0, 3)) + "\x1b"; break;
			case 10: s.keys = c + "J"; break;
			case 11: s.keys = rg + "d" + (r.chance(1, 2) ? "f" : "t") + mbchar(r); break;
			case 12: s.keys = rg + "y" + (r.chance(1, 2) ? "F" : "T") + mbchar(r); break;
			case 13: s.keys = c + (r.chance(1, 2) ? ";" : ","); break;
			case 14: { static const char *m[] = {"h", "l", "w", "b", "e", "$", "0", "j", "k", "W", "E", "B"}; s.keys = c + m[r.below(12)]; break; }
			case 15: s.keys = std::to_string(r.range(1, 30)) + "|"; break;
			case 16: s.keys = "i" + mbtext(r, (int) r.range(1, 6)) + "\x08" + mbtext(r, 2) + "\x1b"; break;
			case 17: s.keys = "a" + mbtext(r, (int) r.range(1, 6)) + "\x17" + mbtext(r, 1) + "\x1b"; break;
			case 18: s.keys = "A" + mbtext(r, 3) + "\x15" + mbtext(r, 2) + "\x1b"; break;
			case 19: s.keys = "i\x16" + mbchar(r) + mbtext(r, 2) + "\x1b"; break;
			case 20: s.keys = c + "."; break;
			case 21: s.keys = rg + "y" + c + "l"; break;
			case 22: s.keys = rg + "yy"; break;
			case 23: s.keys = ":s/" + std::string(r.chance(1, 3) ? "a*" : r.chance(1, 2) ? "." : "[^a]") + "/" + mbchar(r) + "/" + (r.chance(1, 2) ? "g" : "") + "\n"; break;
			case 24: s.keys = "/" + mbchar(r) + "\n"; break;
			case 25: s.keys = r.chance(1, 2) ? "u" : "\x12"; break;
			case 26: s.keys = "o" + mbtext(r, (int) r.range(0, 8)) + "\x1b"; break;
			case 27: s.keys = rg + "c" + (r.chance(1, 2) ? "l" : "h") + mbchar(r) + "\x1b"; break;
			case 28: s.keys = "g" + std::string(1, "~uU"[r.below(3)]) + c + "w"; break;
			default: s.keys = c + "l" + rg + "x"; break;
			}
			s.meta.set("k", "mod");
			p.steps.push_back(s);
		}
		if (longline) {
			static const char *use[] = {"1G\";p", "1G\";P", "1Gjo\x12;\x1b", "1G\";pk\";P"};
			Step s; s.meta = Json::obj(); s.meta.set("k", "mod"); s.keys = use[r.below(4)];
			p.steps.insert(p.steps.begin() + (long) r.below(p.steps.size() + 1), s);
		}
		// a repeatable command longer than the 4 KiB recording buffer, whose 4096th recorded byte falls inside
		// a character, then '.': whatever is replayed must still be whole characters
		if (vi && r.chance(1, 100)) {
			Step a; a.meta = Json::obj(); a.meta.set("k", "mod");
			std::string ch = mbchar(r);
			int n = (int) (4096 / ch.size()) + (int) r.range(-3, 40);
			a.keys = std::string(r.chance(1, 2) ? "i" : "A") + std::string(r.chance(1, 2) ? "" : "x");
			for (int i = 0; i < n; i++) a.keys += ch;
			a.keys += "\x1b";
			Step d; d.meta = Json::obj(); d.meta.set("k", "mod"); d.keys = ".\x1b\x1b";
			size_t at = (size_t) r.below(p.steps.size() + 1);
			p.steps.insert(p.steps.begin() + (long) at, d);
			p.steps.insert(p.steps.begin() + (long) at, a);
		}
		// a window resize at an arbitrary system call of a step, also between the bytes of one character
		// (the poll() waiting for the next byte is interrupted): no command may cut or lose part of a character
		if (vi && r.chance(1, 3)) {
			int nf = (int) r.range(1, 2);
			for (int k = 0; k < nf; k++) {
				Fault f; f.seam = "any"; f.nth = (int) r.below(r.chance(1, 2) ? 16 : 60); f.effect = "sigwinch";
				f.arg = r.range(4, 30); f.arg2 = r.range(10, 100); f.err = r.chance(2, 3);
				p.steps[(size_t) r.below(p.steps.size())].faults.push_back(f);
			}
		}
		Step w = ex_step(p, "w! OUT"); w.meta = Json::obj(); w.meta.set("k", "write");
		if (vi) w.keys = "\x1b\x1b" + w.keys;	// a resize may have left an operator pending: w ! would be read as commands
		p.steps.push_back(w);
		return p;
	}

	std::set<std::string> known;	// characters that occurred in files or typed text

	void begin(RunCtx &c) override
	{
		known.clear();
		for (auto &f : c.plan.files) for (auto &ch : utf8_chars(f.data)) known.insert(ch);
		for (auto &s : c.plan.steps) for (auto &ch : utf8_chars(s.keys)) known.insert(ch);
		// case changes of ASCII letters create the other case
		for (char ch = 'a'; ch <= 'z'; ch++) { known.insert(std::string(1, ch)); known.insert(std::string(1, (char) (ch - 32))); }
		for (auto &ch : utf8_chars("<>\t ")) known.insert(ch);
	}

	void quiescent(RunCtx &c, int after) override
	{
		if (after < 0) return;
		std::string ctx = "after step " + std::to_string(after) + " " + vis(c.plan.steps[(size_t) after].keys, 40);
		c.compared();
		int n = c.nlines();
		for (int i = 0; i < n; i++) {
			std::string l = c.line(i);
			if (!utf8_valid(l))
				c.violate("C16/buffer/invalid-utf8", ctx + ": line " + std::to_string(i + 1) + " is not valid UTF-8: \"" + vis(l, 60) + "\"");
			for (auto &ch : utf8_chars(l))
				if (!known.count(ch))
					c.violate("C16/buffer/foreign-character", ctx + ": line " + std::to_string(i + 1) + " contains a character that was never in the files nor typed: \"" + vis(ch, 8) + "\" in \"" + vis(l, 60) + "\"");
		}
		static const char *names = "abc0123456789";
		for (const char *nm = names; *nm; nm++)
			if (c.has_reg(*nm) && !utf8_valid(c.reg(*nm)))
				c.violate("C16/register/invalid-utf8", ctx + ": register " + std::string(1, *nm) + " is not valid UTF-8: \"" + vis(c.reg(*nm), 60) + "\"");
		if (c.has_reg(0) && !utf8_valid(c.reg(0)))
			c.violate("C16/register/invalid-utf8", ctx + ": the unnamed register is not valid UTF-8: \"" + vis(c.reg(0), 60) + "\"");
		bool ex;
		std::string out = c.file("OUT", &ex);
		if (ex && !utf8_valid(out)) c.violate("C16/file/invalid-utf8", ctx + ": the written file is not valid UTF-8");
		Fnv h; for (int i = 0; i < n; i++) h.str(c.line(i));
		c.state(h.h);
	}
};

CheckReg reg(new C16);

} // namespace
