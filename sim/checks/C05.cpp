// C05 — No memory errors, crashes or hangs for any command stream over UTF-8 text.
// The sanitizer-instrumented editor runs under the whole environment: resizes at
// arbitrary system-call boundaries, tiny windows, children of every consumption
// style at every pipe capacity, fork failure, I/O errors and short counts.
// Oracles: no sanitizer report / fatal signal (the supervisor classifies a dead
// worker), no simulated SIGPIPE death, bounded liveness once the quit suffix is in.
#include "common.h"
#include <cerrno>

namespace {

static const char *EXCMDS[] = {"a", "i", "c", "d", "y", "pu", "p", "=", "k", "s", "g", "v", "g!", "u", "redo", "w", "w!", "wq", "x", "q", "e", "e!", "ew", "b", "n", "prev", "r", "rs", "rx", "ra", "@",
	"!", "se", "ft", "cm", "cm!", "ec", "so", "ta", "tn", "tp", "po", "tf", "make", "rk", "xa", "append", "insert", "change", "delete", "global", "substitute", "zz", ""};

struct C05 : Check {
	const char *id() const override { return "C05"; }
	std::string rule() const override {
		return "streams of 3..60 chunks in 'vi -v' / 'vi -e' / 'vi -s -e' mixing grammar-aware vi commands (counts, registers incl. \\x forms, operators x motions, inserts with multi-byte text and insert-mode keys, searches, marks, scrolls, window and buffer commands, q-menu, tags, ^L ^Z), "
			"ex lines (every ex command, in/out-of-range and malformed addresses, empty text blocks, bare :s, >512-byte lines), truncated commands and valid-UTF-8 noise, over valid-UTF-8 files (ASCII, wide, combining, RTL, ZWJ, long and empty lines), "
			"options at normal/extreme values through EXINIT, windows from 2x2; faults: SIGWINCH at arbitrary syscall boundaries (incl. inside poll), children that stream / read all / exit early / read nothing / write to stderr at pipe capacities 1..64K with stalls, fork failure, open/read/write/close errors, short counts. "
			"Violation = sanitizer report or fatal signal in the editor (worker dies; seed re-run alone), simulated death by SIGPIPE, a step or the quit suffix exceeding its syscall budget, or input requested again after the quit suffix. "
			"non-trivial = the run reached its quit suffix or exited by itself; distinct = distinct event-log fingerprints";
	}
	std::vector<std::string> assumptions() const override {
		return {"allocation failure is not injected (malloc results are never checked anywhere in neatvi; no property promises OOM tolerance)",
			"EOF is never delivered on the terminal before the quit suffix (at EOF the editor's loops spin by construction)",
			"typed text, patterns and file contents are valid UTF-8, as the statement restricts",
			"signals are delivered at system-call boundaries, not between arbitrary instructions",
			"a register that executes itself through the visual-mode @ (the endless vi macro) is not generated: it loops until interrupted by design",
			"every catalogue child terminates; a child that never exits would hang any editor",
			"CPU time is the hang oracle (20 s of CPU without finishing the run), so inputs whose honest cost is super-linear are kept moderate: linelimit <= 1000 (with lim=100000 every keystroke re-runs the bidi regex set over the whole 1000+ character line), no nested-star patterns, search counts <= 30 (a backward search for a pattern that matches the empty string walks every position of a long line, per repetition), counts on . and @ <= 12 (typing n characters into one line costs O(n^2): the line is rendered again for every key), counts in the thousands only on puts of whole lines and once per plan, runs whose buffer passes 150 000 lines end unjudged",
			"syscall budgets (bounded liveness): 400 000 calls per step and 3 000 000 per run, plus 40 calls per buffer line and 4 per buffer byte (printing or writing n lines costs O(n) calls, a one-byte pipe costs a poll per byte); transfers that the simulator itself cut short (one byte per read/write) and bytes moved through pipes do not count"};
	}

	static std::string rtext(Rng &r, int maxlen)
	{
		int n = (int) r.range(0, maxlen);
		Alpha a = r.chance(1, 2) ? A_UTF8_MIX : A_ASCII_WORDS;
		std::string t = gen_line(r, n, a);
		// keep typed text free of bytes that end insert mode or act as insert-mode keys unless intended
		return t;
	}
	static std::string reg(Rng &r)
	{
		int k = (int) r.below(8);
		if (k == 0) return "";
		if (k == 1) return "\"" + std::string(1, (char) ('a' + r.below(26)));
		if (k == 2) return "\"" + std::string(1, (char) ('A' + r.below(26)));
		if (k == 3) return "\"" + std::string(1, (char) ('0' + r.below(10)));
		if (k == 4) return "\"\\" + std::string(1, (char) (33 + r.below(94)));
		if (k == 5) return "\"" + utf8_enc(0xe9);
		if (k == 6) return "\"" + std::string(1, (char) (1 + r.below(31)));
		return "\"\"";
	}
	// With one byte per write() a file of n bytes honestly costs n system calls: the per-step syscall
	// budget (bounded liveness) then only makes sense for moderately sized buffers.
	// Counts in the thousands multiply (a put of a put ...): at most one per plan (and buffers beyond 150 000 lines end the run unjudged), so that the honest cost
	// of a plan stays far below the CPU watchdog even under ASan.
	static int &big_left() { static int n = 1; return n; }
	static std::string count(Rng &r)
	{
		int k = (int) r.below(10);
		if (k < 6) return "";
		if (k < 8) return std::to_string(r.range(1, 9));
		return std::to_string(r.range(10, 300));
	}
	// thousands: only where the cost is linear in the count (a put of whole lines), once per plan
	static std::string bigcount(Rng &r)
	{
		if (big_left() <= 0 || !r.chance(1, 3)) return count(r);
		big_left()--;
		return std::to_string(r.range(1000, 6000));
	}
	// . and @ replay typed text: typing n characters into one line costs O(n^2) (the line is rendered
	// again for every key), so their counts stay small
	static std::string smallcount(Rng &r) { return r.chance(1, 2) ? "" : std::to_string(r.range(1, 12)); }
	static std::string motion(Rng &r)
	{
		static const char *m[] = {"h", "l", "j", "k", "0", "^", "$", "|", "w", "b", "e", "W", "B", "E", "G", "+", "-", "_", "%", "{", "}", "H", "M", "L", ";", ",", "n", "N", " ", "\x08", "\x7f", "\n", "[[", "]]", "\x01", "''", "`a", "'a", "'z", "`[", "`]"};
		int k = (int) r.below(48);
		if (k < 41) return m[k];
		std::string ch = r.chance(1, 3) ? utf8_enc(0x4e00 + (unsigned) r.below(50)) : std::string(1, (char) (' ' + r.below(95)));
		if (k == 41) return "f" + ch;
		if (k == 42) return "F" + ch;
		if (k == 43) return "t" + ch;
		if (k == 44) return "T" + ch;
		if (k == 45) return "/" + pattern(r) + "\n";
		if (k == 46) return "?" + pattern(r) + "\n";
		return "/" + pattern(r) + "/" + std::to_string(r.range(-3, 3)) + "\n";
	}
	static std::string pattern(Rng &r)
	{
		static const char *p[] = {"a", "foo", "^", "$", ".", "x*", "\\<b", "r\\>", "[a-f]+", "[^ ]*", "(a|b)+", "(x)(y)?", "a{2,3}", "[[:alpha:]]+", "\\(", "[", "(", "a{", "*", "\\", "", "[]", "[^]", "()", "a||b", "^$", ".*x.*y", "(((((a)))))", "a{1,200}", "[z-a]"};
		if (r.chance(1, 30)) { static const char *an[] = {"\\>", "\\<", "\\<\\>", "^\\>", "\\>$", "\\<$"}; return an[r.below(6)]; }	// anchors only
		int k = (int) r.below(36);
		// bounds in every shape, also reversed, missing, huge and unterminated
		if (k == 34) { static const char *b[] = {"x{9,1}", "(ab){12,2}", "a{,3}", "a{3,}", "a{0}", "a{0,0}b", "a{99999999999}", "a{1,99999999999}", "a{,}", "a{2", "a{2,", "(a|b){7,3}c", ".{200,1}", "[a-z]{30,2}$"}; return b[r.below(14)]; }
		if (k == 35) return std::string(1, "ax.("[r.below(4)]) + "{" + std::to_string(r.range(0, 40)) + (r.chance(1, 2) ? "," + std::to_string(r.range(0, 40)) : "") + "}";
		if (k < 30) return p[k];
		if (k == 30) return utf8_enc(0x4e00 + (unsigned) r.below(50)) + "+";
		if (k == 31) return "[" + utf8_enc(0x627) + "-" + utf8_enc(0x64a) + "]";
		if (k == 32) { std::string s; for (int i = 0; i < 40; i++) s += "(a"; return s; }
		return gen_line(r, r.range(1, 12), A_UTF8_MIX);
	}
	static std::string filter(Rng &r)
	{
		static const char *f[] = {"sort", "tr a-z A-Z", "cat", "rev", "tac", "sed p", "uniq", "wc -l", "head -1", "head -0", "true", "false", "echo hi", "nosuch", "sleep 3; cat", "seq 2000", "seq 5", "cat >&2", "", "%", "#", "cat %", "\\", "sleep 1; true"};
		return f[r.below(sizeof f / sizeof f[0])];
	}
	static std::string insert_text(Rng &r)
	{
		std::string t;
		int n = (int) r.range(0, 6);
		for (int i = 0; i < n; i++) {
			int k = (int) r.below(16);
			if (k < 8) t += rtext(r, 12);
			else if (k == 8) t += "\n";
			else if (k == 9) t += "\x08";
			else if (k == 10) t += "\x17";
			else if (k == 11) t += "\x15";
			else if (k == 12) t += r.chance(1, 2) ? "\x14" : "\x04";
			else if (k == 13) t += std::string("\x16") + rtext(r, 1);
			else if (k == 14) t += r.chance(1, 2) ? "\x10" : std::string("\x12") + std::string(1, (char) ('a' + r.below(26)));
			else t += r.chance(1, 3) ? "\x0b" "a:" : r.chance(1, 2) ? "\x06" : "\x05";
		}
		return t;
	}
	static std::string addr(Rng &r)
	{
		static const char *a[] = {"", "", "", "1", "2", "$", ".", "0", "%", "1,$", ".,$", "2,1", "99", "1,99", "'a", "'z", "/a/", "?b?", "/nomatch/", "+", "-", "+3", "-2", ".+1,$-1", "1;+1", "$;-1", ",", ";", "1,", ",5", "''", "/a/,/b/", "0,0", "-1", "5;4;3", "1,2,3", "$$", "..", "'", "/", "?", "/[/", "$+99999999999-0", ".-99999999999+1"};	// (a bare huge number could be read as a vi count by a pending command: 10^8 puts are the user's loop, not a hang)
		return a[r.below(sizeof a / sizeof a[0])];
	}
	static std::string exarg(Rng &r, const std::string &cmd)
	{
		if (cmd == "s" || cmd == "substitute") {
			static const char *rep[] = {"X", "", "\\0", "\\1", "\\9\\2", "&", "\\", "a\\/b", "\\n"};
			int k = (int) r.below(8);
			if (k == 0) return "";
			if (k == 1) return "/" + pattern(r);
			std::string d = r.chance(1, 8) ? std::string(1, ",;#|\"\\"[r.below(6)]) : "/";
			return d + pattern(r) + d + rep[r.below(9)] + d + (r.chance(1, 2) ? "g" : "");
		}
		if (cmd == "g" || cmd == "v" || cmd == "g!" || cmd == "global") {
			// (a/i/c under a global read one text block per matching line from the terminal: a legitimate wait for
			// input that no fixed quit suffix can satisfy, so they are not generated as global subcommands)
			static const char *sub[] = {"d", "p", "s/a/b/", "pu", "-1d", ".,+1d", "g/a/d", "normal", "", "u", "e #", "b !", "w", "y a"};
			std::string pat = pattern(r);
			// a pattern ending in an odd backslash would escape the closing delimiter and turn the
			// subcommand's first letters into part of the pattern: "s/a/b/" then reads as the text command a
			if (!pat.empty() && pat.back() == '\\') pat += "\\";
			return "/" + pat + "/" + sub[r.below(14)];
		}
		if (cmd == "e" || cmd == "e!" || cmd == "ew" || cmd == "r" || cmd == "w" || cmd == "w!" || cmd == "so") {
			static const char *p[] = {"", "F0", "F1", "F2", "missing", "%", "#", "dir", "ro", "+3 F1", "+/a/ F0", "+ F0", "new1", "tags", "=F0", "a b", "\\%", "!cat", "!head -1", "!true", "!", "!seq 300"};
			return " " + std::string(p[r.below(22)]);
		}
		if (cmd == "b") { static const char *p[] = {"", "1", "2", "9", "+", "-", "#", "%", "^", "!", "~", "x", "0", "99999"}; return " " + std::string(p[r.below(14)]); }
		if (cmd == "se") { static const char *p[] = {"ai", "noai", "ic", "noic", "hl", "nohl", "hll", "nohll", "lim=0", "lim=1", "lim=-1", "lim=1000", "order=0", "order=2", "shape", "noshape", "td=2", "td=-2", "td=0", "td=7", "ru=0", "ru=7", "hist=0", "hist=1", "hist=100", "hist=-1", "aw", "wa", "nowa", "noaw", "bogus", "lim=", "=3", ""}; return " " + std::string(p[r.below(34)]); }
		if (cmd == "!" || cmd == "make") return filter(r);
		if (cmd == "rx") return " " + std::string(1, (char) ('a' + r.below(4))) + " " + filter(r);
		if (cmd == "rs" || cmd == "ra" || cmd == "@" || cmd == "y" || cmd == "d" || cmd == "pu" || cmd == "delete") {
			int k = (int) r.below(6);
			return k == 0 ? "" : k == 1 ? " " + std::string(1, (char) ('a' + r.below(4))) : k == 2 ? " \\" + std::string(1, (char) (33 + r.below(90))) : k == 3 ? " :" : k == 4 ? " " + utf8_enc(0x4e01) : " A";
		}
		if (cmd == "k") return std::string(1, (char) ('a' + r.below(26)));
		if (cmd == "ft") return r.chance(1, 2) ? "" : " c";
		if (cmd == "cm" || cmd == "cm!") { static const char *p[] = {"", " fa", " en", " ru", " xx"}; return p[r.below(5)]; }
		if (cmd == "ta") { static const char *p[] = {" main", " foo", "", " nosuch", " x y"}; return p[r.below(5)]; }
		if (cmd == "ec") return " " + rtext(r, 20);
		if (cmd == "rk") return " a /nosock";
		return r.chance(1, 4) ? " " + rtext(r, 10) : "";
	}
	static std::string exline(Rng &r)
	{
		std::string cmd = EXCMDS[r.below(sizeof EXCMDS / sizeof EXCMDS[0])];
		std::string l = addr(r) + cmd + exarg(r, cmd);
		if (r.chance(1, 10) && cmd[0] != 'g' && cmd[0] != 'v') l += "|" + addr(r) + EXCMDS[r.below(sizeof EXCMDS / sizeof EXCMDS[0])];
		if (r.chance(1, 40)) { l += " "; while (l.size() < (size_t) r.range(500, 700)) l += gen_line(r, 20, A_ASCII_WORDS); }
		bool text = cmd == "a" || cmd == "i" || cmd == "c" || cmd == "rs" || cmd == "append" || cmd == "insert" || cmd == "change";
		l += "\n";
		if (text) {
			int n = (int) r.range(0, 3);
			for (int i = 0; i < n; i++) l += rtext(r, 30) + "\n";
			if (!r.chance(1, 10)) l += ".\n";
		}
		return l;
	}
	// searches repeat count times over the whole buffer: keep their counts moderate (see assumptions)
	static std::string with_motion(Rng &r, const std::string &pre, const std::string &rg)
	{
		std::string m = motion(r);
		bool srch = m[0] == '/' || m[0] == '?' || m[0] == 'n' || m[0] == 'N' || m[0] == '\x01';
		if (!srch) return pre + m;
		return rg + (r.chance(1, 3) ? std::to_string(r.range(1, 30)) : "") + m;
	}
	static std::string vicmd(Rng &r)
	{
		std::string c = count(r), rg = reg(r);
		std::string pre = r.chance(1, 2) ? rg + c : c + rg;
		switch (r.below(40)) {
		case 0: case 1: return with_motion(r, pre, rg);
		case 2: return (r.chance(1, 4) ? std::to_string(r.chance(1, 2) ? 2147483647l : r.range(100000, 99999999)) : pre) + motion(r);	// huge counts on motions only
		case 3: case 4: case 5: { static const char *op[] = {"d", "c", "y", "<", ">", "!", "g~", "gu", "gU"}; std::string o = op[r.below(9)]; std::string m = r.chance(1, 6) ? o.substr(o.size() - 1) : count(r) + motion(r);
			std::string s = pre + o + m; if (o == "c") s += insert_text(r) + "\x1b"; if (o == "!") s += filter(r) + "\n"; return s; }
		case 6: { static const char *s1[] = {"x", "X", "D", "Y", "p", "P", "J", "~", ".", "u", "\x12", "\x07", "\x0c", "ga", "gd", "gf", "gl", "\x1d", "\x14", "\x1e", "\x1a", "ZZ", "zj", "zk", "zJ", "zK", "zD", "ze", "zf", "z>", "z<", "z.", "z-", "z\n"}; std::string k1 = s1[r.below(34)]; return (k1 == "." ? rg + smallcount(r) : pre) + k1; }
		case 7: return pre + "r" + (r.chance(1, 4) ? "\n" : rtext(r, 1).substr(0, 4));
		case 8: case 9: case 10: { static const char *ins[] = {"i", "a", "I", "A", "o", "O", "s", "S", "C"}; return pre + ins[r.below(9)] + insert_text(r) + "\x1b"; }
		case 11: return pre + "m" + std::string(1, (char) ('a' + r.below(26)));
		case 12: { static const char *sc[] = {"\x05", "\x19", "\x04", "\x15", "\x06", "\x02"}; return pre + sc[r.below(6)]; }
		case 13: { static const char *w[] = {"s", "j", "k", "o", "c", "x", "]", "gf", "gl", "gd", "q", "\x1d", "z"}; return "\x17" + std::string(w[r.below(13)]); }
		case 14: case 15: case 16: case 17: return ":" + exline(r);
		case 18: return rg + smallcount(r) + "@" + (r.chance(1, 3) ? "@" : std::string(1, (char) ('a' + r.below(4))));
		case 19: return "q" + std::string(1, "0123\n\x1b" "aq"[r.below(8)]);
		case 20: return rg + (r.chance(1, 2) ? "n" : "N");
		case 21: return rg + "\x01";
		case 22: return pre + "!" + motion(r) + filter(r) + "\n";
		case 23: return pre + "\"";		// truncated: register with no name
		case 24: return pre + "d";		// truncated: operator with no motion
		case 25: return ":s/";			// unterminated
		case 26: return gen_line(r, r.range(1, 8), A_UTF8_MIX);	// noise
		case 27: return std::string(1, (char) (1 + r.below(31)));
		case 28: return c + "yy" + bigcount(r) + "p";	// (no register prefix: the put must be of the lines just yanked)
		case 29: return pre + "dd";
		case 30: return "u";
		case 31: return ":" + std::string(r.chance(1, 2) ? "\x1b" : "\x03");
		case 32: return ":\x12" + std::string(1, (char) ('a' + r.below(4))) + "\n";
		case 33: return "/" + std::string("\x1b");
		case 34: return pre + "gg";
		case 35: return "\"a" + count(r) + "yy:@a\n";
		// (register z is never executed with the vi-mode @: a register that re-executes itself there is the
		// classic endless vi macro - a loop the user asked for, ended only by an interrupt, not a hang)
		case 36: return ":rs z\n" + std::string(r.chance(1, 3) ? "@z" : r.chance(1, 2) ? "ra z" : "1d|u") + "\n.\n:@z\n";
		case 37: return ":e F" + std::to_string(r.below(3)) + "\n";
		case 38: return "i" + std::string((size_t) r.range(1, 4), '\t') + rtext(r, 300) + "\x1b";
		default: return with_motion(r, pre, rg);
		}
	}

	Plan generate(unsigned long long seed, int tier) override
	{
		Rng r(seed * 0x9e3779b97f4a7c15ull + 0xC05);
		int mode = r.weighted({6, 2, 2});
		Plan p = base_plan("C05", seed, mode == 0 ? "vi" : mode == 1 ? "ex" : "exs");
		// The quit suffix a patient user types: a register executed as ex commands (":@a" after "Nyy") may hold
		// hundreds of lines that happen to start with a, i or c, and each of them legitimately waits for a
		// text block; every ESC / "." ends one.  Then the quit command proper.
		std::string many_esc(400, '\x1b'), many_dot;
		for (int i = 0; i < 400; i++) many_dot += ".\n";
		if (mode == 0) p.quit = many_esc + ":\x05q!\n";
		else if (mode == 1) p.quit = std::string("\x05\n\x05\n") + many_dot + "\x05.\n\x05q!\n";
		else p.quit = "\n\n" + many_dot + "q!\n";
		// windows from 2x2 upward, biased small
		int wk = (int) r.below(10);
		p.rows = wk == 0 ? 2 : wk == 1 ? 3 : wk < 5 ? (int) r.range(2, 8) : wk < 9 ? (int) r.range(8, 40) : (int) r.range(40, 120);
		p.cols = wk == 0 ? 2 : wk == 2 ? 3 : wk < 5 ? (int) r.range(2, 20) : wk < 9 ? (int) r.range(20, 120) : (int) r.range(120, 300);
		// options
		std::string ex;
		static const char *opts[] = {"ai", "noai", "ic", "noic", "hl", "nohl", "hll", "lim=0", "lim=3", "lim=1000", "order=0", "order=2", "noshape", "td=2", "td=-2", "td=-1", "td=0", "ru=0", "ru=2", "ru=7", "hist=0", "hist=2", "hist=50", "aw", "wa"};
		int no = (int) r.below(5);
		for (int i = 0; i < no; i++) ex += std::string(ex.empty() ? "" : "|") + "se " + opts[r.below(25)];
		if (r.chance(1, 8)) ex += std::string(ex.empty() ? "" : "|") + "cm fa";
		p.env.clear();
		p.env.push_back({"EXINIT", ex});
		if (r.chance(1, 10)) p.env.push_back({"TAGPATH", "tags"});
		// files
		int nf = (int) r.range(0, 3);
		for (int i = 0; i < 3; i++) {
			FileSpec f; f.path = "F" + std::to_string(i); f.mtime = -100;
			int shape = (int) r.below(8);
			int nl = shape == 0 ? 0 : shape == 1 ? 1 : (int) r.range(1, shape == 2 ? 200 : 30);
			for (int k = 0; k < nl; k++) {
				int lk = (int) r.below(12);
				if (lk == 0) f.data += "\n";
				else if (lk == 1) f.data += gen_line(r, r.range(200, 1200), A_UTF8_MIX) + "\n";
				else if (lk == 2) f.data += utf8_enc(0x627) + utf8_enc(0x644) + utf8_enc(0x64e) + utf8_enc(0x633) + " abc " + utf8_enc(0x200d) + utf8_enc(0x645) + utf8_enc(0x200c) + "\n";
				else if (lk == 3 && r.chance(1, 2)) {
					// a right-to-left line with a double-width character or a tab straddling the window's edge
					std::string l;
					long k = p.cols + r.range(-3, 1);
					for (long q = 0; q < k; q++) l += utf8_enc(0x628);
					l += r.chance(1, 2) ? utf8_enc(0x4e2d) : std::string("\t");
					l += "x" + utf8_enc(0x4e2d) + utf8_enc(0x628);
					f.data += l + "\n";
				}
				else if (lk == 3) f.data += "\t\tint main(void) { return f(a[1], \"s\"); } /* c */\n";
				else f.data += gen_line(r, r.range(0, 70), r.chance(1, 2) ? A_UTF8_MIX : A_ASCII_WORDS) + "\n";
			}
			if (!f.data.empty() && r.chance(1, 6)) f.data.pop_back();
			if (i == 0 && r.chance(1, 3)) f.path = "F0.c";
			p.files.push_back(f);
		}
		{ FileSpec t; t.path = "tags"; t.mtime = -100; t.data = r.chance(1, 3) ? "garbage\n\x01\x02\n" : "main\tF0\t/int main/\nfoo\tF1\t1\nfoo\tF2\t2\nbar\tmissing\t1\n"; if (r.chance(2, 3)) p.files.push_back(t); }
		{ FileSpec d; d.path = "dir"; d.dir = true; p.files.push_back(d); FileSpec ro; ro.path = "ro"; ro.ro = true; ro.data = "read only\n"; p.files.push_back(ro); }
		for (int i = 0; i < nf; i++) p.argv.push_back(p.files[(size_t) i].path);
		// swarm knobs
		static const long caps[] = {1, 2, 7, 64, 512, 4096, 65536};
		p.knobs.pipe_cap = caps[r.below(7)];
		p.knobs.child_pace = r.chance(1, 2) ? 4096 : r.range(1, 100);
		p.knobs.stall_pct = r.chance(1, 3) ? (int) r.range(5, 60) : 0;
		p.knobs.read_policy = r.chance(1, 4) ? (int) r.range(1, 2) : 0;
		p.knobs.write_policy = r.chance(1, 4) ? (int) r.range(1, 2) : 0;
		big_left() = p.knobs.write_policy != 1 ? 1 : 0;
		bool faults = r.chance(1, 2);
		int nsteps = (int) r.range(3, tier ? 60 : 40);
		for (int i = 0; i < nsteps; i++) {
			Step s;
			if (faults && r.chance(1, 12)) {
				s.op = "resize"; s.n1 = r.chance(1, 3) ? 2 : r.range(2, 50); s.n2 = r.chance(1, 3) ? 2 : r.range(2, 160);
				p.steps.push_back(s);
				continue;
			}
			int nc = (int) r.range(1, 4);
			for (int k = 0; k < nc; k++) s.keys += mode == 0 ? vicmd(r) : exline(r);
			if (faults && r.chance(1, 5)) {
				int nfault = (int) r.range(1, 2);
				for (int k = 0; k < nfault; k++) {
					Fault f;
					int fk = (int) r.below(9);
					if (fk <= 2) { f.seam = "any"; f.nth = (int) r.below(r.chance(1, 2) ? 12 : 300); f.effect = "sigwinch"; f.arg = r.chance(1, 3) ? 2 : r.range(2, 40); f.arg2 = r.chance(1, 3) ? 2 : r.range(2, 120); f.err = r.chance(1, 2); }
					else if (fk == 3) { f.seam = "fork"; f.effect = "fail"; }
					else if (fk == 4) { f.seam = "fopen"; f.effect = "err"; f.err = r.chance(1, 2) ? EACCES : EMFILE; }
					else if (fk == 5) { f.seam = "fread"; f.nth = (int) r.below(3); f.effect = "err"; f.err = EIO; }
					else if (fk == 6) { f.seam = "fwrite"; f.nth = (int) r.below(3); f.effect = r.chance(1, 2) ? "err" : "short_err"; f.err = ENOSPC; f.arg = r.range(1, 100); }
					else if (fk == 7) { f.seam = "fclose"; f.effect = "err"; f.err = EIO; }
					else { f.seam = "cpoll"; f.nth = (int) r.below(6); f.effect = "eintr"; }
					s.faults.push_back(f);
				}
			}
			p.steps.push_back(s);
		}
		// a full buffer table (16 slots): open that many distinct paths, then delete / switch / reopen buffers
		if (r.chance(1, 10)) {
			std::string pre = mode == 0 ? ":" : "";
			Step o; int nb = (int) r.range(14, 18);
			for (int i = 0; i < nb; i++) o.keys += pre + "e! B" + std::to_string(i) + "\n";
			Step d; int nd = (int) r.range(1, 6);
			for (int i = 0; i < nd; i++) {
				int k = (int) r.below(5);
				d.keys += pre + (k == 0 ? "b !" : k == 1 ? "b !" : k == 2 ? "e! B" + std::to_string(r.below(20)) : k == 3 ? "b " + std::to_string(r.below(18)) : std::string("b +")) + "\n";
			}
			size_t at = (size_t) r.below(p.steps.size() + 1);
			p.steps.insert(p.steps.begin() + (long) at, d);
			p.steps.insert(p.steps.begin() + (long) at, o);
		}
		return p;
	}

	void quiescent(RunCtx &c, int after) override
	{
		if (getenv("NVSIM_DEBUG") && c.ed.ex_lbuf()) {
			int n = c.nlines();
			fprintf(stderr, "after step %d: %d lines row=%d off=%d path=%s\n", after, n, c.row(), c.off(), c.path().c_str());
			for (int i = 0; i < n && i < 12; i++) fprintf(stderr, "   %d%s: %s\n", i, utf8_valid(c.line(i)) ? "" : " INVALID", vis(c.line(i), 100).c_str());
			for (int rg = 0; rg < 256; rg++) if (c.has_reg(rg) && (rg == 0 || rg == 'a' || rg == ':' || rg == '/')) fprintf(stderr, "   reg %d: %s\n", rg, vis(c.reg(rg), 100).c_str());
		}
		// cheap structural invariants (the rest of C05's oracle is the sanitizer and the budgets)
		if (after >= 0 && c.ed.ex_lbuf()) {
			int n = c.nlines();
			// counts multiply (a put of a put): once the buffer is this large, every further whole-buffer
			// command honestly costs more than the CPU watchdog allows under ASan; such a run ends here, unjudged
			if (n > 150000) { c.count("oversized_buffer_runs_ended"); K.end_run(OUT_PLAN_END, "buffer beyond 150000 lines"); }
			// likewise a line of tens of thousands of characters: every key typed into it renders it again
			if (c.row() >= 0 && c.row() < n && c.line(c.row()).size() > 30000) { c.count("oversized_line_runs_ended"); K.end_run(OUT_PLAN_END, "cursor line beyond 30000 bytes"); }
			Fnv h; h.num((unsigned long long) n); h.num((unsigned long long) c.row()); h.num((unsigned long long) K.rows * 1000 + (unsigned long long) K.cols);
			c.state(h.h);
		}
	}

	void finish(RunCtx &c) override
	{
		int o = c.res.outcome;
		std::string where = c.res.last_step >= c.nsteps ? "after the quit suffix" : "during step " + std::to_string(c.res.last_step) + " " +
			(c.res.last_step >= 0 ? vis(c.plan.steps[(size_t) c.res.last_step].op == "keys" ? c.plan.steps[(size_t) c.res.last_step].keys : c.plan.steps[(size_t) c.res.last_step].op, 60) : "");
		if (o == OUT_RETURNED || o == OUT_EXITED) { c.compared(); c.count(c.res.quit_sent ? "reached_quit_suffix" : "exited_by_itself"); return; }
		c.compared();
		if (o == OUT_KILLED_SIGPIPE) c.violate("C05/killed/sigpipe", "the editor was killed by SIGPIPE " + where + ": " + c.res.outcome_note);
		else if (o == OUT_NOQUIT) c.violate("C05/liveness/noquit", "the editor did not quit on the quit suffix (" + vis(c.plan.quit) + ")");
		else if (o == OUT_HANG_STEP || o == OUT_HANG_RUN) c.violate(c.res.quit_sent ? "C05/liveness/quit-budget" : "C05/liveness/step-budget", "syscall budget exceeded " + where + ": " + c.res.outcome_note);
		else if (o == OUT_DEADLOCK) c.violate("C05/liveness/deadlock", "blocked forever " + where + ": " + c.res.outcome_note);
		else if (o == OUT_PLAN_END) c.count("plan_end");
	}
};

CheckReg reg(new C05);

} // namespace
