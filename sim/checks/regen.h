// Generators shared by the checks that use RefRegex: text lines over a small alphabet
// (so that patterns match often) and patterns from the RefRegex grammar.
#pragma once
#include "common.h"

static const char *const WORDS[] = {"ab", "abc", "ca", "b", "aa", "cab", "a1", "b2", "ba", "c", "abab", "bca"};

static inline std::string gen_textline(Rng &r)
{
	std::string s;
	int n = (int) r.range(0, 5);
	for (int i = 0; i < n; i++) {
		if (i) s += r.chance(1, 6) ? "  " : " ";
		int k = (int) r.below(14);
		if (k < 12) s += r.chance(1, 25) ? "a/b" : WORDS[k];
		else if (k == 12) s += utf8_enc(0xe9) + "a" + utf8_enc(0x4e2d);
		else s += "x" + std::to_string(r.below(100));
	}
	return s;
}

// a pattern from the RefRegex grammar, conservative about nullable repetition
static inline std::string gen_atom(Rng &r, bool allow_group, bool allow_quant = true);
static inline std::string gen_literal(Rng &r)
{
	int k = (int) r.below(12);
	if (k < 9) return std::string(1, "abc"[r.below(3)]);
	if (k == 9) return std::string(1, (char) ('1' + r.below(2)));
	if (k == 10) return utf8_enc(0xe9);
	return utf8_enc(0x4e2d);
}
static inline std::string gen_seq(Rng &r, int maxn, bool allow_group, bool allow_quant = true)
{
	std::string s;
	int n = (int) r.range(1, maxn);
	for (int i = 0; i < n; i++) s += gen_atom(r, allow_group, allow_quant);
	return s;
}
static inline std::string gen_atom(Rng &r, bool allow_group, bool allow_quant)
{
	int k = (int) r.below(allow_group ? 16 : 13);
	std::string a;
	bool single = true;
	// A quantifier inside a quantified group ((b.+)*, (a.*)+) makes a backtracking matcher take exponential
	// time on lines of a few dozen characters: how long a match takes is not the subject of these checks,
	// so a group that gets a repetition has an unquantified body
	int q = allow_quant ? (int) r.below(10) : 9;
	bool inner = q > 3;
	if (k < 6) a = gen_literal(r);
	else if (k == 6) a = ".";
	else if (k == 7) a = r.chance(1, 2) ? "[ab]" : "[a-c]";
	else if (k == 8) a = r.chance(1, 2) ? "[^a]" : "[^ b]";
	else if (k == 9) a = "[bc1]";
	else if (k <= 12) { a = gen_literal(r); }
	// group bodies start with a mandatory character, so that a quantified group is never nullable
	// (what an empty iteration captures differs between backtracking engines and is not in the statement)
	else if (k == 13) { a = "(" + gen_literal(r) + (r.chance(1, 2) ? gen_seq(r, 1, false, inner) : std::string()) + ")"; single = false; }
	else if (k == 14) { a = "(" + gen_literal(r) + (r.chance(1, 2) ? gen_seq(r, 1, false, inner) : std::string()) + "|" + gen_literal(r) + (r.chance(1, 2) ? gen_seq(r, 1, false, inner) : std::string()) + ")"; single = false; }
	else { a = "(" + gen_literal(r) + gen_literal(r) + ")"; single = false; }
	(void) single;
	if (q == 0) a += "*";
	else if (q == 1) a += "+";
	else if (q == 2) a += "?";
	else if (q == 3) a += r.chance(1, 2) ? "{1,2}" : "{2}";
	return a;
}
static inline std::string gen_pattern(Rng &r)
{
	std::string p = gen_seq(r, 3, true);
	int k = (int) r.below(12);
	if (k == 0) p = "^" + p;
	else if (k == 1) p += "$";
	else if (k == 2) p = "\\<" + gen_literal(r) + p;
	else if (k == 3) { std::string l = gen_literal(r); p = p + l + "\\>"; }
	else if (k == 4) p = gen_seq(r, 2, false) + "|" + gen_seq(r, 2, false);
	else if (k == 5) p = "^" + p + "$";
	return p;
}

