// C13 — Search lands on the first match after / last match before the cursor, no wrap.
// Reference search semantics over RefRegex (matches judged against the whole
// line), compared with where the running editor puts the cursor.
#include "common.h"
#include "regen.h"
#include "../models/refregex.h"

namespace {

struct C13 : Check {
	const char *id() const override { return "C13"; }
	std::string rule() const override {
		return "'vi -v' sessions: the cursor is placed (NG, 0, Nl), then sequences of /re<CR> ?re<CR> n N with counts, empty-pattern reuse and ^A word searches, over ASCII and multi-byte buffers of 1..30 lines (<= 80 characters), patterns from the RefRegex grammar incl. anchored (^ $ \\< \\>) ones. "
			"Oracle: forward = first match starting after the cursor character on its line, else the first match of the nearest following line that has one; backward = the last of the successive matches that start before the cursor on its line, else the last successive match of the nearest preceding line; no wrap; n / N same / opposite direction; a count = that many repetitions; nothing found => cursor unchanged. "
			"non-trivial = at least one search compared; distinct = distinct event-log fingerprints";
	}
	std::vector<std::string> assumptions() const override {
		return {"ignorecase keeps its default (on)", "patterns are generated from the RefRegex grammar; lines stay <= 80 characters (engine depth limit out of reach)",
			"where a search with a line offset (/re/+1) lands is not part of the statement: such searches are generated but followed, not judged; what is judged is that the offset does not leak into later searches without one"};
	}
	std::vector<std::string> excluded() const override {
		return {"n / N / an empty pattern before any pattern was given (neatvi searches for the empty string then)",
			"a match that starts at the very end of a line (after the last character, e.g. /$ or an empty match there): the cursor cannot stand there; such expectations are skipped"};
	}

	Plan generate(unsigned long long seed, int tier) override
	{
		Rng r(seed * 0x9e3779b97f4a7c15ull + 0xC13);
		Plan p = base_plan("C13", seed, "vi");
		p.rows = (int) r.range(6, 40); p.cols = (int) r.range(40, 120);
		FileSpec f; f.path = "F"; f.mtime = -100;
		int nl = (int) r.range(1, 30);
		for (int i = 0; i < nl; i++) f.data += gen_textline(r) + "\n";
		p.files.push_back(f);
		p.argv.push_back("F");
		int nsteps = (int) r.range(3, tier ? 30 : 20);
		for (int i = 0; i < nsteps; i++) {
			Step s; s.meta = Json::obj();
			int k = r.weighted({20, 22, 14, 16, 10, 6, 6, 3});
			std::string cnt = r.chance(1, 4) ? std::to_string(r.range(2, 4)) : "";
			if (k == 0) {		// place the cursor
				s.keys = std::to_string(r.range(1, nl)) + "G0";
				long c = r.range(0, 30);
				if (c) s.keys += std::to_string(c) + "l";
				s.meta.set("k", "place");
			} else if (k == 1 || k == 2) {
				std::string pat = r.chance(1, 3) ? std::string(WORDS[r.below(12)]) : gen_pattern(r);
				char d = k == 1 ? '/' : '?';
				// the delimiter inside the pattern must be escaped
				std::string esc;
				for (char ch : pat) { if (ch == d) esc += '\\'; esc += ch; }
				s.keys = cnt + std::string(1, d) + esc + "\n";
				s.meta.set("k", "search").set("dir", k == 1 ? 1 : -1).set("pat", pat).set("cnt", cnt.empty() ? 1 : atol(cnt.c_str()));
			} else if (k == 3) { s.keys = cnt + "n"; s.meta.set("k", "next").set("rev", false).set("cnt", cnt.empty() ? 1 : atol(cnt.c_str())); }
			else if (k == 4) { s.keys = cnt + "N"; s.meta.set("k", "next").set("rev", true).set("cnt", cnt.empty() ? 1 : atol(cnt.c_str())); }
			else if (k == 5) { s.keys = std::string(1, r.chance(1, 2) ? '/' : '?') + "\n"; s.meta.set("k", "search").set("dir", s.keys[0] == '/' ? 1 : -1).set("pat", "").set("cnt", 1); }
			else if (k == 7) {
				// a search with a line offset: where it lands is not part of the statement (followed, not judged),
				// but the offset must not leak into a later search that has none (a new pattern, ^A)
				bool fwd = r.chance(1, 2);
				char d = fwd ? '/' : '?';
				std::string pat = WORDS[r.below(12)];
				s.keys = std::string(1, d) + pat + std::string(1, d) + (r.chance(1, 2) ? "+1" : "-1") + "\n";
				s.meta.set("k", "offsearch").set("dir", fwd ? 1 : -1).set("pat", pat);
			}
			else { s.keys = cnt + "\x01"; s.meta.set("k", "word").set("cnt", cnt.empty() ? 1 : atol(cnt.c_str())); }
			p.steps.push_back(s);
		}
		return p;
	}

	// ---- reference
	std::string last_pat; int last_dir = 0;
	bool offset_active = false;	// the last search had a line offset: n and N repeat it

	void begin(RunCtx &) override { last_pat.clear(); last_dir = 0; offset_active = false; }

	// one search step from (row, off); returns false when nothing is found; skip is set when the
	// expectation falls on an excluded corner (match at the very end of a line)
	bool search_once(const std::vector<refre::U32> &lines, refre::Matcher &m, int dir, int &row, int &off, bool &skip)
	{
		int n = (int) lines.size();
		if (dir > 0) {
			for (int r = row; r < n; r++) {
				refre::Match mt = m.search(lines[(size_t) r], r == row ? off + 1 : 0);
				if (r == row && off + 1 > (int) lines[(size_t) r].size()) mt.found = false;
				if (mt.found) {
					if (mt.so >= (int) lines[(size_t) r].size()) { skip = true; return false; }
					row = r; off = mt.so; return true;
				}
			}
			return false;
		}
		for (int r = row; r >= 0; r--) {
			const refre::U32 &s = lines[(size_t) r];
			int pos = 0, last = -1;
			while (pos <= (int) s.size()) {
				refre::Match mt = m.search(s, pos);
				if (!mt.found) break;
				if (r == row && mt.so >= off) break;
				if (mt.so >= (int) s.size()) { if (s.empty() && last < 0) { last = 0; } else if (!s.empty()) skip = true; break; }
				last = mt.so;
				pos = mt.eo > mt.so ? mt.eo : mt.eo + 1;
			}
			if (skip) return false;
			if (last >= 0) { row = r; off = last; return true; }
		}
		return false;
	}

	static bool iswordcp(unsigned c) { return (c >= '0' && c <= '9') || (c >= 'a' && c <= 'z') || (c >= 'A' && c <= 'Z') || c == '_' || c > 127; }

	int prow = 0, poff = 0;

	void quiescent(RunCtx &c, int after) override
	{
		if (after < 0) { prow = c.row(); poff = c.off(); return; }
		const Step &s = c.plan.steps[(size_t) after];
		std::string k = s.meta.str("k");
		int row = c.row(), off = c.off();
		std::string ctx = "step " + std::to_string(after) + " " + vis(s.keys, 40) + " from line " + std::to_string(prow + 1) + " char " + std::to_string(poff);
		if (k == "place" || k.empty()) { prow = row; poff = off; return; }
		if (k == "offsearch") {
			last_pat = s.meta.str("pat"); last_dir = (int) s.meta.num("dir");
			offset_active = true;
			c.count("offset_searches_followed");
			prow = row; poff = off;
			return;
		}
		if (k == "next" && offset_active) { c.count("offset_searches_followed"); prow = row; poff = off; return; }	// n / N repeat the offset
		if (k == "search" && !s.meta.str("pat").empty()) offset_active = false;
		if (k == "search" && s.meta.str("pat").empty() && offset_active) { c.count("offset_searches_followed"); prow = row; poff = off; return; }
		if (k == "word") offset_active = false;
		std::vector<std::string> text = c.text();
		std::vector<refre::U32> lines;
		for (auto &l : text) lines.push_back(refre::decode(l));
		int dir = last_dir;
		long cnt = s.meta.num("cnt", 1);
		if (k == "search") {
			std::string pat = s.meta.str("pat");
			dir = (int) s.meta.num("dir");
			if (!pat.empty()) last_pat = pat;
			last_dir = dir;
		} else if (k == "next") {
			if (s.meta.boolean("rev")) dir = -dir;
		} else if (k == "word") {
			// the word under the cursor, searched forward as \<word\>
			if (prow >= (int) lines.size()) { prow = row; poff = off; return; }
			const refre::U32 &ln = lines[(size_t) prow];
			int o = poff < (int) ln.size() ? poff : (int) ln.size() - 1;
			if (o < 0 || !iswordcp(ln[(size_t) o])) {
				// not on a word character: which word (if any) ^A takes then is not in the statement
				c.count("word_search_off_word_skipped");
				last_pat.clear(); last_dir = 0;
				prow = row; poff = off;
				return;
			}
			int b = o, e = o;
			while (b > 0 && iswordcp(ln[(size_t) b - 1])) b--;
			while (e < (int) ln.size() && iswordcp(ln[(size_t) e])) e++;
			std::string w;
			for (int i = b; i < e; i++) w += utf8_enc(ln[(size_t) i]);
			last_pat = "\\<" + w + "\\>";
			last_dir = 1; dir = 1;
		}
		if (last_pat.empty() || dir == 0 || lines.empty()) {
			// n, N or an empty pattern before any pattern was given: what happens then is not in the statement
			c.count("no_previous_pattern_skipped");
			prow = row; poff = off;
			return;
		}
		refre::Matcher m(last_pat, true);
		if (!m.valid) { prow = row; poff = off; c.count("unparsable_pattern_skipped"); return; }
		int er = prow, eo = poff;
		bool ok = true, skip = false;
		if (eo >= (int) lines[(size_t) er].size()) eo = lines[(size_t) er].empty() ? 0 : (int) lines[(size_t) er].size() - 1;
		for (long i = 0; i < cnt && ok; i++) ok = search_once(lines, m, dir, er, eo, skip);
		if (skip) { c.count("eol_match_skipped"); prow = row; poff = off; return; }
		c.compared();
		c.count(ok ? "found_compared" : "notfound_compared");
		std::string what = std::string(dir > 0 ? "forward" : "backward") + " search for /" + vis(last_pat, 30) + "/" + (cnt > 1 ? " x" + std::to_string(cnt) : "");
		if (!ok) {
			if (row != prow || off != poff)
				c.violate("C13/notfound/cursor-moved", ctx + ": " + what + " has no match (no wrap), but the cursor moved to line " + std::to_string(row + 1) + " char " + std::to_string(off));
		} else if (row != er || off != eo) {
			std::string cls = row == prow && off == poff ? "C13/found/cursor-stayed" : (dir > 0 ? "C13/forward/wrong-match" : "C13/backward/wrong-match");
			c.violate(cls, ctx + ": " + what + " must land on line " + std::to_string(er + 1) + " char " + std::to_string(eo) + ", the cursor is on line " + std::to_string(row + 1) + " char " + std::to_string(off) +
				" (line: \"" + vis(text[(size_t) er], 50) + "\")");
		}
		prow = row; poff = off;
		Fnv h; h.num((unsigned long long) row * 1000 + (unsigned long long) off); h.str(last_pat);
		c.state(h.h);
	}
};

CheckReg reg(new C13);

} // namespace
