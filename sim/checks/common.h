// Helpers shared by the property checks: content generators, plan skeletons.
#pragma once
#include "../run.h"

static inline std::string utf8_enc(unsigned cp)
{
	std::string o;
	if (cp < 0x80) o += (char) cp;
	else if (cp < 0x800) { o += (char) (0xc0 | (cp >> 6)); o += (char) (0x80 | (cp & 0x3f)); }
	else if (cp < 0x10000) { o += (char) (0xe0 | (cp >> 12)); o += (char) (0x80 | ((cp >> 6) & 0x3f)); o += (char) (0x80 | (cp & 0x3f)); }
	else { o += (char) (0xf0 | (cp >> 18)); o += (char) (0x80 | ((cp >> 12) & 0x3f)); o += (char) (0x80 | ((cp >> 6) & 0x3f)); o += (char) (0x80 | (cp & 0x3f)); }
	return o;
}

// split a valid UTF-8 string into characters (own decoder; no neatvi code)
static inline std::vector<std::string> utf8_chars(const std::string &s)
{
	std::vector<std::string> v;
	size_t i = 0;
	while (i < s.size()) {
		unsigned char c = (unsigned char) s[i];
		size_t n = c < 0x80 ? 1 : (c & 0xe0) == 0xc0 ? 2 : (c & 0xf0) == 0xe0 ? 3 : (c & 0xf8) == 0xf0 ? 4 : 1;
		if (i + n > s.size()) n = s.size() - i;
		v.push_back(s.substr(i, n));
		i += n;
	}
	return v;
}

static inline unsigned utf8_cp(const std::string &ch)
{
	unsigned char c = (unsigned char) ch[0];
	if (c < 0x80 || ch.size() == 1) return c;
	unsigned cp = ch.size() == 2 ? c & 0x1f : ch.size() == 3 ? c & 0x0f : c & 0x07;
	for (size_t k = 1; k < ch.size(); k++) cp = (cp << 6) | ((unsigned char) ch[k] & 0x3f);
	return cp;
}

enum Alpha { A_ASCII_WORDS, A_BYTES, A_UTF8_MIX, A_LOWER };

// one line (no newline) of about len bytes
static inline std::string gen_line(Rng &r, long len, Alpha a)
{
	std::string o;
	static const char *words[] = {"foo", "bar", "baz", "qux", "alpha", "beta", "x", "y1", "a_b", "The", "end", "if", "(a)", "[b]", "{c}", "a.b", "--", "==", "42", "0"};
	while ((long) o.size() < len) {
		switch (a) {
		case A_LOWER: o += (char) ('a' + r.below(26)); break;
		case A_ASCII_WORDS:
			if (!o.empty()) o += r.chance(1, 8) ? "\t" : r.chance(1, 6) ? "  " : " ";
			o += words[r.below(sizeof words / sizeof words[0])];
			break;
		case A_BYTES: {
			unsigned c = 1 + (unsigned) r.below(255);
			if (c == '\n') c = ' ';
			o += (char) c;
			break;
		}
		case A_UTF8_MIX: {
			int k = (int) r.below(12);
			if (k < 6) o += (char) ('a' + r.below(26));
			else if (k == 6) o += ' ';
			else if (k == 7) o += utf8_enc(0xe0 + (unsigned) r.below(30));		// Latin-1 letters, 2 bytes
			else if (k == 8) o += utf8_enc(0x4e00 + (unsigned) r.below(200));	// CJK, 3 bytes, wide
			else if (k == 9) o += utf8_enc(0x1f600 + (unsigned) r.below(40));	// 4 bytes
			else if (k == 10) o += utf8_enc(0x0627 + (unsigned) r.below(20));	// Arabic letters
			else o += utf8_enc(0x0301);						// combining acute
			break;
		}
		}
	}
	if (a != A_UTF8_MIX && a != A_ASCII_WORDS && (long) o.size() > len) o.resize((size_t) len);
	return o;
}

static inline long boundary_len(Rng &r)
{
	static const long b[] = {1022, 1023, 1024, 1025, 1026, 2047, 2048, 2049, 4093, 4094, 4095, 4096, 4097, 4098, 8191, 8192, 8193};
	return b[r.below(sizeof b / sizeof b[0])];
}

static inline Plan base_plan(const char *prop, unsigned long long seed, const char *mode)
{
	Plan p;
	p.prop = prop; p.seed = seed;
	std::string m = mode;
	if (m == "exs") { p.argv = {"vi", "-s", "-e"}; p.quit = "\n.\nq!\n"; }
	else if (m == "ex") { p.argv = {"vi", "-e"}; p.quit = "\n.\nq!\n"; }
	else { p.argv = {"vi", "-v"}; p.quit = std::string("\x1b\x1b:q!\n"); }
	p.env.push_back({"EXINIT", ""});
	return p;
}

static inline Step ex_step(const Plan &p, const std::string &cmd)
{
	// an ex command line, typed as such in ex mode and through ':' in vi mode
	bool vi = p.argv.size() > 1 && p.argv[1] == "-v";
	return keys_step(vi ? ":" + cmd + "\n" : cmd + "\n");
}

static inline bool is_vi(const Plan &p) { return p.argv.size() > 1 && p.argv[1] == "-v"; }

// the lines a NUL-free file splits into: at '\n', the last piece kept if non-empty
static inline std::vector<std::string> file_lines(const std::string &data) { return split_lines(data); }

static inline std::string first_diff(const std::string &a, const std::string &b)
{
	size_t i = 0;
	while (i < a.size() && i < b.size() && a[i] == b[i]) i++;
	char buf[160];
	snprintf(buf, sizeof buf, "lengths %zu vs %zu, first difference at byte %zu", a.size(), b.size(), i);
	std::string o = buf;
	o += " (got \"" + vis(a.substr(i, 24), 24) + "\" expected \"" + vis(b.substr(i, 24), 24) + "\")";
	return o;
}
