// C03 — Writes never clobber foreign or newer files; failures surface and stay dirty.
// Level: fault_enumeration.  The grid enumerates every position of the
// open/write/close sequence of a write x every fault kind x command x buffer
// shape; seeded plans add combinations of faults with target existence,
// identity and modification time on the simulated clock.
#include "common.h"
#include <cerrno>

namespace {

static const int OPEN_ERR[] = {EACCES, ENOSPC, EMFILE, EINTR, EISDIR};
static const int WRITE_ERR[] = {ENOSPC, EIO, EINTR, EDQUOT};
static const int CLOSE_ERR[] = {EIO, EINTR};
static const char *CMDS[] = {"w", "w!", "range", "wq", "x", "xa"};

struct Shape { const char *name; std::vector<std::string> lines; };

static std::vector<std::string> shape_lines(int s)
{
	std::vector<std::string> v;
	Rng r(1000 + (unsigned) s);
	switch (s) {
	case 0: v.push_back("one short line"); break;
	case 1: v = {"alpha", "beta", "gamma"}; break;
	case 2: for (int i = 0; i < 40; i++) v.push_back("line " + std::to_string(i) + " " + gen_line(r, 40, A_LOWER)); break;
	case 3: for (int i = 0; i < 3000; i++) v.push_back(gen_line(r, 24 + (i % 11), A_LOWER)); break;
	case 4: v.push_back(gen_line(r, 5000, A_LOWER)); break;
	case 5:
		for (int i = 0; i < 10; i++) v.push_back(gen_line(r, 30, A_LOWER));
		v.push_back(gen_line(r, 5000, A_LOWER));
		for (int i = 0; i < 10; i++) v.push_back(gen_line(r, 30, A_LOWER));
		break;
	case 6: v.push_back(gen_line(r, 4095, A_LOWER)); break;			// exactly one full batch with its newline
	case 7: v.push_back(gen_line(r, 4094, A_LOWER)); v.push_back("x"); break;	// batch boundary crossed by a short line
	case 8: for (int i = 0; i < 600; i++) v.push_back(gen_line(r, 12, A_LOWER)); break;
	}
	return v;
}
static const char *shape_name(int s)
{
	static const char *n[] = {"1-line", "3-lines", "40-lines", "3000-lines", "5000-byte-line", "mix", "4096-exact", "4095+short", "600-lines"};
	return n[s];
}

// how many write() calls a fault-free lbuf_wr makes for these lines (4 KiB batch,
// lines >= 4096 bytes written directly); used only to size the grid
static long count_writes(const std::vector<std::string> &lines, size_t a, size_t b)
{
	long n = 0, buf = 0;
	for (size_t i = a; i < b && i < lines.size(); i++) {
		long nl = (long) lines[i].size() + 1;
		if (buf > 0 && buf + nl > 4096) { n++; buf = 0; }
		if (nl >= 4096) n++; else buf += nl;
	}
	if (buf > 0) n++;
	return n;
}

struct GridCell { int shape, cmd; std::string seam, effect; int nth, err; long arg; };

struct C03 : Check {
	const char *id() const override { return "C03"; }
	const char *level() const override { return "fault_enumeration"; }
	std::string rule() const override {
		return "grid: for each buffer shape (1 line, 3 lines, 40 lines = one batch, 3000 lines = many batches, one 5000-byte line = direct write, mix; thorough adds 4096-exact, 4095+short, 600 lines) x command "
			"(:w :w! :a,bw! G :wq :x :xa) x EVERY position of the open/write/close call sequence x every fault kind (open: EACCES ENOSPC EMFILE EINTR EISDIR; write: ENOSPC EIO EINTR EDQUOT, short 1, short n-1, short-then-ENOSPC; close: EIO EINTR), "
			"one fault per plan, enumerated completely; then seeded plans with 1-3 faults combined with target states (absent, own unchanged, own newer, own touched in the same second, own created after open, foreign existing, foreign absent, read-only, disk filling up) produced by the external writer and the simulated clock. "
			"Oracle: guard refusals leave bytes and mtime untouched; every fired error => 'write failed' reported, no exit, following :q refused, :w! retry succeeds; reported success => file holds exactly the written lines. "
			"non-trivial = a fault fired or a guard decision was checked; distinct = distinct event-log fingerprints";
	}
	std::vector<std::string> assumptions() const override {
		return {"ftruncate failure is not injected (its result is ignored by lbuf_wr; the statement enumerates open/write/close)",
			"write returning 0 for a non-zero count is not injected (not legal for regular files)",
			"the external writer acts only at quiescent points, not between the system calls of one command",
			"'newer' is judged at the 1-second granularity of st_mtime: a file touched within the same second as the editor's last read/write is not required to be refused"};
	}

	std::vector<GridCell> cells[2];
	void build(int tier)
	{
		if (!cells[tier].empty()) return;
		int nshapes = tier ? 9 : 6;
		for (int s = 0; s < nshapes; s++) {
			std::vector<std::string> buf = shape_lines(s);
			buf.push_back("zz");
			for (int c = 0; c < 6; c++) {
				size_t a = 0, b = buf.size();
				if (c == 2) range_of(buf.size(), &a, &b);
				long k = count_writes(buf, a, b);
				for (int e : OPEN_ERR) cells[tier].push_back({s, c, "fopen", "err", 0, e, 0});
				for (long i = 0; i < k; i++) {
					for (int e : WRITE_ERR) cells[tier].push_back({s, c, "fwrite", "err", (int) i, e, 0});
					cells[tier].push_back({s, c, "fwrite", "short", (int) i, 0, 1});
					cells[tier].push_back({s, c, "fwrite", "short", (int) i, 0, -1});
					cells[tier].push_back({s, c, "fwrite", "short_err", (int) i, ENOSPC, 7});
				}
				for (int e : CLOSE_ERR) cells[tier].push_back({s, c, "fclose", "err", 0, e, 0});
			}
		}
	}
	static void range_of(size_t n, size_t *a, size_t *b)
	{
		*a = n > 2 ? 1 : 0;
		*b = n > 2 ? n - 1 : n;
	}
	long grid_size(int tier) override { build(tier); return (long) cells[tier].size(); }

	// the common skeleton: open F, make it dirty, <write>, :q probe, :w! retry
	Plan skeleton(unsigned long long seed, const std::vector<std::string> &file_lines_, bool vi, bool by_argv)
	{
		Plan p = base_plan("C03", seed, vi ? "vi" : "exs");
		p.files.push_back({"F", join_lines(file_lines_), -100});
		if (by_argv) {
			// no unnamed buffer exists then, so that :xa has exactly one buffer to write
			p.argv.push_back("F");
			p.meta = Json::obj(); p.meta.set("argv_open", true);
		} else {
			Step o = ex_step(p, "e F");
			o.meta = Json::obj(); o.meta.set("k", "open").set("path", "F");
			p.steps.push_back(o);
		}
		Step e = vi ? keys_step("Gozz\x1b") : keys_step("$a\nzz\n.\n");
		e.meta = Json::obj(); e.meta.set("k", "edit");
		p.steps.push_back(e);
		return p;
	}
	static Step write_step(const Plan &p, const std::string &cmd, size_t nbuf, const std::string &other)
	{
		Json m = Json::obj();
		std::string line;
		m.set("k", "write");
		if (cmd == "range") {
			size_t a, b;
			range_of(nbuf, &a, &b);
			line = std::to_string(a + 1) + "," + std::to_string(b) + "w! " + other;
			m.set("path", other).set("a", (long) a + 1).set("b", (long) b).set("force", true);
		} else {
			line = cmd;
			m.set("path", "F").set("whole", true).set("force", cmd.find('!') != std::string::npos);
			if (cmd[0] == 'x' || cmd == "wq") m.set("quit", true);
			if (cmd == "xa") m.set("all", true);
		}
		Step s = ex_step(p, line);
		s.meta = m;
		return s;
	}
	static void add_tail(Plan &p)
	{
		Step q = ex_step(p, "q");
		q.meta = Json::obj(); q.meta.set("k", "quitprobe");
		p.steps.push_back(q);
		Step w = ex_step(p, "w!");
		w.meta = Json::obj(); w.meta.set("k", "write").set("path", "F").set("whole", true).set("force", true).set("retry", true);
		p.steps.push_back(w);
	}

	Plan grid_plan(long idx, int tier) override
	{
		build(tier);
		const GridCell &g = cells[tier][(size_t) idx];
		std::vector<std::string> fl = shape_lines(g.shape);
		Plan p = skeleton((unsigned long long) idx, fl, false, g.cmd == 5 || idx % 2 == 0);
		p.variant = std::string("grid/") + shape_name(g.shape) + "/" + CMDS[g.cmd] + "/" + g.seam + "#" + std::to_string(g.nth) + "/" + g.effect + (g.err ? ":" + std::to_string(g.err) : "") + (g.arg ? ":" + std::to_string(g.arg) : "");
		Step w = write_step(p, CMDS[g.cmd], fl.size() + 1, "G");
		Fault f;
		f.seam = g.seam; f.nth = g.nth; f.effect = g.effect; f.err = g.err; f.arg = g.arg;
		w.faults.push_back(f);
		p.steps.push_back(w);
		add_tail(p);
		return p;
	}

	Plan generate(unsigned long long seed, int tier) override
	{
		Rng r(seed * 0x9e3779b97f4a7c15ull + 0xC03);
		bool vi = r.chance(1, 4);
		std::vector<std::string> fl;
		int shape = (int) r.below(7);
		if (shape < 6 && !(vi && shape == 3)) fl = shape_lines(shape);
		else { long n = r.range(1, 300); for (long i = 0; i < n; i++) fl.push_back(gen_line(r, r.range(0, 120), A_LOWER)); }
		if (r.chance(1, 6)) fl.push_back(gen_line(r, boundary_len(r), A_LOWER));
		Plan p = skeleton(seed, fl, vi, r.chance(1, 2));
		p.variant = "seeded";
		size_t nbuf = fl.size() + 1;
		// the buffer's own path may be one that did not exist when it was opened
		bool newfile = r.chance(1, 6);
		if (newfile) { p.files.clear(); }
		else if (r.chance(1, 6)) {
			// the edited path is a symbolic link: the guard is about the file behind it, whose
			// modification time moves while the link's own does not
			for (auto &f : p.files) if (f.path == "F") f.path = "T";
			FileSpec l; l.path = "F"; l.link = "T"; l.mtime = r.chance(1, 2) ? -100 : -300;
			p.files.push_back(l);
			p.variant = "seeded/symlink";
		}
		if (r.chance(1, 8)) { p.knobs.write_policy = (int) r.range(1, 4); p.knobs.write_n = 1000; }
		int nw = (int) r.range(1, 3);
		for (int i = 0; i < nw; i++) {
			// environment action before the write
			int env = (int) r.below(10);
			if (env == 0) { Step s; s.op = "advance"; s.n1 = 2000000000l; p.steps.push_back(s); Step t; t.op = "touch"; t.path = "F"; t.data = "changed by someone else\n"; p.steps.push_back(t); }
			else if (env == 1) { Step t; t.op = "touch"; t.path = "F"; t.data = "same second\n"; p.steps.push_back(t); }
			else if (env == 2) { Step t; t.op = "remove"; t.path = "F"; p.steps.push_back(t); }
			else if (env == 3) { Step s; s.op = "advance"; s.n1 = (long) r.range(1, 3) * 1000000000l; p.steps.push_back(s); }
			// the write command
			int c = (int) r.below(9);
			Step w;
			if (c < 6) w = write_step(p, CMDS[c], nbuf, "G");
			else {
				// whole buffer to a foreign path, without '!'
				std::string other = r.chance(1, 2) ? "G" : "H";
				w = ex_step(p, "w " + other);
				w.meta = Json::obj();
				w.meta.set("k", "write").set("path", other).set("whole", true).set("force", false);
			}
			if (r.chance(1, 3) && !has_file(p, "G")) p.files.push_back({"G", "foreign content\n", -200});
			if (r.chance(1, 10) && !has_file(p, "H")) { FileSpec f; f.path = "H"; f.data = "read only\n"; f.mtime = -200; f.ro = true; p.files.push_back(f); }
			// faults
			int nf = r.chance(1, 2) ? 0 : (int) r.range(1, 3);
			for (int k = 0; k < nf; k++) {
				Fault f;
				int kind = (int) r.below(10);
				if (kind == 0) { f.seam = "fopen"; f.effect = "err"; f.err = OPEN_ERR[r.below(5)]; }
				else if (kind <= 6) {
					f.seam = "fwrite"; f.nth = (int) r.below(r.chance(1, 2) ? 2 : 25);
					int e = (int) r.below(7);
					if (e < 4) { f.effect = "err"; f.err = WRITE_ERR[e]; }
					else if (e == 4) { f.effect = "short"; f.arg = r.range(1, 4000); }
					else if (e == 5) { f.effect = "short"; f.arg = -1; }
					else { f.effect = "short_err"; f.arg = r.range(1, 3000); f.err = r.chance(1, 2) ? ENOSPC : EDQUOT; }
				} else { f.seam = "fclose"; f.effect = "err"; f.err = CLOSE_ERR[r.below(2)]; }
				w.faults.push_back(f);
			}
			p.steps.push_back(w);
			if (r.chance(1, 2)) { Step q = ex_step(p, "q"); q.meta = Json::obj(); q.meta.set("k", "quitprobe"); p.steps.push_back(q); }
		}
		if (r.chance(1, 12)) p.knobs.disk_cap = (long) join_lines(fl).size() + r.range(-2000, 6000);
		add_tail(p);
		(void) tier;
		return p;
	}
	static bool has_file(const Plan &p, const std::string &n) { for (auto &f : p.files) if (f.path == n) return true; return false; }

	// ---- per-run state
	std::vector<std::string> before;
	std::map<std::string, long> seen_mtime;		// file mtime observed right after the editor last read/wrote its own path successfully
	bool own_known = false;				// the editor has read or written F at least once while it existed
	std::map<std::string, std::pair<std::string, long>> fs_before;	// files before the step
	std::map<std::string, long> fired_before, probes_before;
	bool expect_dirty = false;
	bool last_write_failed = false;
	std::string path_before;

	void begin(RunCtx &) override
	{
		before.clear(); seen_mtime.clear(); own_known = false; fs_before.clear(); fired_before.clear(); probes_before.clear();
		expect_dirty = false; last_write_failed = false;
	}

	static Inode &ino(const std::string &path) { return K.fs[K.real(path)]; }

	static long delta(const std::map<std::string, long> &now, const std::map<std::string, long> &was, const char *k)
	{
		auto a = now.find(k), b = was.find(k);
		return (a == now.end() ? 0 : a->second) - (b == was.end() ? 0 : b->second);
	}

	void snapshot(RunCtx &c)
	{
		before = c.text();
		path_before = c.path();
		fs_before.clear();
		// a name that is a symbolic link stands for the file behind it (absent when the link dangles)
		for (auto &kv : K.fs) {
			auto it = K.fs.find(K.real(kv.first));
			if (it != K.fs.end() && it->second.link.empty()) fs_before[kv.first] = {it->second.data, it->second.mtime};
		}
		fired_before = K.fired; probes_before = K.probes;
	}

	std::string message(RunCtx &c)
	{
		// what the command told the user: stdout in 'vi -s -e', the message line in 'vi -v'
		if (is_vi(c.plan)) return K.vt.rowtext(K.rows - 1);
		return c.step_output();
	}

	bool must_refuse_own(const std::string &path, bool force)
	{
		if (force || path != path_before || !fs_before.count(path)) return false;
		return !own_known || fs_before[path].second > seen_mtime[path];
	}

	void check_write(RunCtx &c, const Step &s, bool exited)
	{
		const Json &m = s.meta;
		std::string path = m.str("path");
		bool force = m.boolean("force"), whole = m.boolean("whole");
		long a = whole ? 1 : m.num("a"), b = whole ? (long) before.size() : m.num("b");
		if (before.empty() || a < 1 || b > (long) before.size() || a > b) return;
		std::string want = join_lines(before, (size_t) (a - 1), (size_t) b);
		long hard = delta(K.fired, fired_before, "fopen:err") + delta(K.fired, fired_before, "fwrite:err") +
			delta(K.fired, fired_before, "fwrite:then_err") + delta(K.fired, fired_before, "fclose:err") +
			delta(K.probes, probes_before, "disk_full_error");
		// "fwrite:short_err" whose follow-up error never came (the short write was the last byte run) counts as a plain short write
		long shorts = delta(K.fired, fired_before, "fwrite:short") + delta(K.fired, fired_before, "fwrite:short_err");
		bool existed = fs_before.count(path) > 0;
		std::string msg = message(c);
		bool said_failed = msg.find("write failed") != std::string::npos;
		bool said_ok = msg.find("[w]") != std::string::npos && !said_failed;
		bool exists_now;
		std::string got = c.file(path, &exists_now);
		if (s.keys.find('x') != std::string::npos && m.boolean("quit") && !expect_dirty) {
			// :x and :xa write only a modified buffer; on a clean one they just quit
			c.count("x_on_clean_buffer");
			return;
		}
		std::string where = "step " + std::to_string(c.cur) + " " + vis(s.keys, 40) + " (" + c.plan.variant + ")";
		if (m.boolean("all") && hard == 0 && !must_refuse_own(path, force) && !exited) {
			// :xa writes every buffer; a buffer other than F (e.g. the unnamed one) may have failed on
			// its own account.  Nothing to assert about messages; track F's state from its bytes.
			c.count("xa_other_buffer_failed");
			expect_dirty = !(exists_now && got == want);
			if (!expect_dirty) { seen_mtime[path] = ino(path).mtime; own_known = true; }
			return;
		}
		// (a) the guard
		bool must_refuse = false;
		std::string why;
		if (!force) {
			if (path != path_before && existed) { must_refuse = true; why = "target exists and is not the file being edited"; }
			if (path == path_before && existed) {
				long mt = fs_before[path].second;
				if (!own_known) { must_refuse = true; why = "the file appeared after the editor started on a path that did not exist"; }
				else if (mt > seen_mtime[path]) { must_refuse = true; why = "file is newer than when the editor last read or wrote it"; }
			}
		}
		if (must_refuse) {
			c.compared();
			c.count("guard_refusals_checked");
			if (exited) c.violate("C03/guard/exit-after-refusal", where + ": the write had to be refused (" + why + ") but the editor exited");
			if (!exists_now || got != fs_before[path].first)
				c.violate("C03/guard/clobbered", where + ": " + why + ", yet the file was changed: " + first_diff(got, fs_before[path].first));
			if (ino(path).mtime != fs_before[path].second)
				c.violate("C03/guard/mtime-touched", where + ": refused write changed the file's modification time");
			if (said_ok) c.violate("C03/guard/reported-success", where + ": refused write reported success: " + vis(msg, 80));
			last_write_failed = true;
			return;
		}
		// (b) injected failures surface
		if (hard > 0) {
			c.compared();
			c.count("fault_failures_checked");
			if (exited) c.violate("C03/fault/exit-after-failed-write", where + ": a system call failed during the write but the editor exited (outcome " + outcome_name(c.res.outcome) + ")");
			if (!said_failed) c.violate(said_ok ? "C03/fault/reported-success" : "C03/fault/not-reported", where + ": a system call failed during the write but the command said: \"" + vis(msg, 80) + "\"");
			last_write_failed = true;
			if (m.boolean("all")) {
				// :xa makes two passes over the buffer; which one failed decides what the editor
				// recorded.  Resynchronise the model from what is observable instead of guessing.
				own_known = exists_now;
				if (exists_now) seen_mtime[path] = ino(path).mtime;
				expect_dirty = !(exists_now && got == want);
			}
			return;
		}
		// (c) success => exact bytes
		if (said_ok || exited) {
			c.compared();
			c.count(shorts ? "short_writes_completed_checked" : "successes_checked");
			if (!exists_now || got != want)
				c.violate(shorts ? "C03/success/wrong-bytes-after-short-write" : "C03/success/wrong-bytes", where + ": the command reported success but " + path + " is wrong: " + first_diff(got, want));
			last_write_failed = false;
			if (whole && path == path_before && !exited) { seen_mtime[path] = ino(path).mtime; own_known = true; expect_dirty = false; }
			if (m.boolean("retry")) c.count("retries_succeeded");
		} else if (said_failed) {
			// failure without an injected error and without a guard reason (e.g. a read-only target): legal; nothing to compare
			c.count("uninjected_failures");
			last_write_failed = true;
			if (m.boolean("retry") && hard == 0 && K.knobs.disk_cap < 0 && !(fs_before.count(path) && K.fs.count(K.real(path)) && ino(path).ro)) {
				c.compared();
				c.violate("C03/retry/failed", where + ": no fault is active any more, yet the :w! retry failed: " + vis(msg, 80));
			}
		} else if (shorts && !said_ok) {
			c.compared();
			c.violate("C03/short/not-completed", where + ": a short write was not an error, yet the command did not report success: \"" + vis(msg, 80) + "\"");
		}
	}

	void quiescent(RunCtx &c, int after) override
	{
		if (after == -1 && c.plan.meta.boolean("argv_open") && K.fs.count(K.real("F"))) { seen_mtime["F"] = ino("F").mtime; own_known = true; }
		if (after >= 0) {
			const Step &s = c.plan.steps[(size_t) after];
			std::string k = s.meta.str("k");
			if (k == "open") {
				std::string p = s.meta.str("path");
				if (K.fs.count(K.real(p))) { seen_mtime[p] = ino(p).mtime; own_known = true; }
			}
			if (k == "edit") expect_dirty = true;
			if (k == "write") check_write(c, s, false);
			if (k == "quitprobe" && expect_dirty) {
				// still running although :q was typed: that is the required refusal
				c.compared();
				c.count("quit_refusals_seen");
			}
		}
		snapshot(c);
		Fnv h; h.num(before.size()); h.num((unsigned long long) expect_dirty); h.num((unsigned long long) last_write_failed);
		c.state(h.h);
	}

	void finish(RunCtx &c) override
	{
		bool ended = c.res.outcome == OUT_RETURNED || c.res.outcome == OUT_EXITED;
		if (!ended || c.cur < 0 || c.cur >= c.nsteps) return;
		const Step &s = c.plan.steps[(size_t) c.cur];
		std::string k = s.meta.str("k");
		if (k == "write") {
			if (s.meta.boolean("quit")) check_write(c, s, true);
			else c.violate("C03/exit/unexpected", "the editor exited during " + vis(s.keys, 40));
		}
		if (k == "quitprobe" && expect_dirty) {
			c.compared();
			c.violate("C03/dirty/quit-allowed-after-failed-write", "the buffer differs from its file (the last write of it failed or never happened) but :q exited (" + c.plan.variant + ")");
		}
	}
};

CheckReg reg(new C03);

} // namespace
