// C19 — The terminal shows a true window of the buffer with the cursor on its character.
// The simulated terminal (VT emulator) is a peer; the oracle reads only what
// the editor wrote to it.  Three clauses at quiescent points in normal mode:
//  (1) window: every text row equals an independent rendering (ScreenModel) of
//      buffer line top+i at one common horizontal offset, filler past the end;
//  (2) same as a full repaint: a ^L step must not change any text row nor the cursor;
//  (3) cursor: on the row of the cursor line and within the cells of the cursor character.
#include "common.h"

namespace {

struct ScreenModel {
	// cells of one plain left-to-right line at horizontal offset left, width cols;
	// returns false when the line is outside the restricted alphabet (then only clause 2 applies)
	static bool render(const std::string &line, int left, int cols, std::vector<std::string> &cells, std::vector<int> &cont, std::vector<int> *charcol, std::vector<int> *charwid)
	{
		cells.assign((size_t) cols, "");
		cont.assign((size_t) cols, 0);
		std::vector<std::string> chs = utf8_chars(line);
		int pos = 0;
		for (auto &ch : chs) {
			unsigned cp = utf8_cp(ch);
			int w;
			std::string shown = ch;
			if (cp == '\t') { w = 8 - (pos & 7); shown = ""; }
			else if (cp < 0x20 || cp == 0x7f) return false;
			else if (cp < 0x7f) w = 1;
			else if (cp >= 0x600 && cp <= 0x6ff) return false;			// RTL: clause 2 only
			else if (cp >= 0x200b && cp <= 0x200f) return false;
			else if (cp >= 0xfb00 && cp <= 0xfeff) return false;
			else if (cp >= 0x300 && cp <= 0x36f) { w = 1; shown = "\xef\xbf\xbd"; }	// zero-width: shown as U+FFFD
			else if (VT::width(cp) == 2) w = 2;
			else if (cp >= 0xa0 && cp < 0x300) w = 1;
			else return false;
			if (charcol) charcol->push_back(pos);
			if (charwid) charwid->push_back(w);
			int b = pos - left, e = pos + w - 1 - left;
			if (b >= 0 && e < cols) {	// only characters that fit entirely are drawn
				if (!shown.empty() || cp == '\t') {
					if (cp == '\t') { for (int k = b; k <= e; k++) cells[(size_t) k] = " "; }
					else {
						cells[(size_t) b] = shown;
						for (int k = b + 1; k <= e; k++) { cells[(size_t) k] = ""; cont[(size_t) k] = 1; }
					}
				}
			}
			pos += w;
		}
		return true;
	}
	static std::string rowtext(const std::vector<std::string> &cells, const std::vector<int> &cont)
	{
		std::string o;
		int last = -1;
		for (size_t i = 0; i < cells.size(); i++) if (!cells[i].empty() && cells[i] != " ") last = (int) i;
		for (int i = 0; i <= last; i++) {
			if (cont[(size_t) i]) continue;
			o += cells[(size_t) i].empty() ? " " : cells[(size_t) i];
		}
		return o;
	}
};

struct C19 : Check {
	const char *id() const override { return "C19"; }
	std::string rule() const override {
		return "'vi -v' sessions (5..60 steps) of motions, scrolls (^E ^Y ^D ^U ^F ^B z. z- z<CR>), edits, undo/redo, ':' commands (incl. multi-line output answered at [enter to continue]), buffer switches, over buffers empty / shorter / longer than the window, "
			"lines shorter / longer than the width (horizontal scrolling), hl / hll on and off, windows 3x10..50x160, resizes at quiescent points and at arbitrary syscalls of a step. Oracle on the emulated terminal only: (1) each text row equals an independent ScreenModel rendering of "
			"line top+i at the common left offset (plain LTR alphabet: ASCII, tabs, Latin-1, wide CJK, combining shown as U+FFFD), '~' filler past the end; top <= cursor line < top+rows; (2) a ^L check step (full repaint) must not change any text row or the cursor; "
			"(3) the terminal cursor is on the cursor line's row within the cells of the cursor character. non-trivial = at least one screen compared; distinct = distinct event-log fingerprints";
	}
	std::vector<std::string> assumptions() const override {
		return {"terminal writes are never shortened (blocking ttys do not do that)",
			"the VT emulator implements the sequences neatvi emits (CSI H K L M r m C D, CR, LF with scroll region, pending wrap); unknown sequences are counted",
			"the top line and left offset are taken from the probe (xtop, xleft) and then checked against the cursor line; the character commands act on is the probe's (xrow, xoff)",
			"lines with right-to-left or shaped characters are judged by clause 2 only (both sides then use neatvi's own reordering)"};
	}
	std::vector<std::string> excluded() const override {
		return {"split windows (^Ws ...) are exercised by C05 only; this oracle covers one window",
			"the message line (last row) is not compared: messages legitimately differ between an incremental update and a repaint"};
	}

	static std::string gen_text_line(Rng &r, int cols)
	{
		int k = (int) r.below(12);
		if (k == 0) return "";
		if (k == 1) return gen_line(r, r.range(cols - 3, cols + 3), A_LOWER);		// around the width
		if (k == 2) return gen_line(r, r.range(cols + 5, 3 * cols), A_ASCII_WORDS);	// long
		if (k == 3 && r.chance(1, 2)) { std::string s; int n = (int) r.range(1, 20); for (int i = 0; i < n; i++) s += utf8_enc(0x4e00 + (unsigned) r.below(100)); return s; }
		if (k == 3) {
			// double-width characters from the other blocks of the width table, mixed with narrow ones
			static const unsigned wide[] = {0x1100, 0xd55c, 0xae00, 0x3042, 0x30ab, 0x3400, 0xf900, 0xff21, 0xff42, 0xa000};
			std::string s; int n = (int) r.range(1, 24);
			for (int i = 0; i < n; i++) s += r.chance(1, 3) ? std::string(1, (char) ('a' + r.below(26))) : utf8_enc(wide[r.below(10)]);
			return s;
		}
		if (k == 4) return "\t" + gen_line(r, r.range(0, 20), A_ASCII_WORDS) + "\tx";
		if (k == 5) return gen_line(r, r.range(3, 30), A_LOWER) + utf8_enc(0x301) + utf8_enc(0xe9) + gen_line(r, 4, A_LOWER);
		if (k == 6) return utf8_enc(0x627) + utf8_enc(0x644) + utf8_enc(0x633) + " abc " + utf8_enc(0x645);	// RTL line
		return gen_line(r, r.range(1, cols - 2 > 1 ? cols - 2 : 1), A_ASCII_WORDS);
	}

	Plan generate(unsigned long long seed, int tier) override
	{
		Rng r(seed * 0x9e3779b97f4a7c15ull + 0xC19);
		Plan p = base_plan("C19", seed, "vi");
		p.rows = r.chance(1, 4) ? (int) r.range(3, 6) : (int) r.range(6, 50);
		p.cols = r.chance(1, 4) ? (int) r.range(10, 25) : (int) r.range(25, 160);
		std::string ex;
		if (r.chance(1, 3)) ex = "se nohl";
		if (r.chance(1, 4)) ex += std::string(ex.empty() ? "" : "|") + "se hll";
		if (r.chance(1, 6)) ex += std::string(ex.empty() ? "" : "|") + "se ru=0";
		p.env.clear(); p.env.push_back({"EXINIT", ex});
		for (int f = 0; f < 2; f++) {
			FileSpec fs; fs.path = f ? "G.c" : "F"; fs.mtime = -100;
			int shape = (int) r.below(6);
			int nl = shape == 0 ? 0 : shape == 1 ? (int) r.range(1, p.rows - 1 > 1 ? p.rows - 1 : 1) : shape == 2 ? p.rows - 1 + (int) r.range(-1, 1) : (int) r.range(p.rows, 4 * p.rows + 20);
			for (int i = 0; i < nl; i++) fs.data += gen_text_line(r, p.cols) + "\n";
			p.files.push_back(fs);
		}
		p.argv.push_back("F");
		int nsteps = (int) r.range(5, tier ? 60 : 40);
		bool resizes = r.chance(1, 4);
		bool had_fault = false;
		for (int i = 0; i < nsteps; i++) {
			Step s;
			int k = r.weighted({30, 16, 22, 10, 4, 3, 8});
			std::string c = r.chance(1, 4) ? std::to_string(r.range(2, 12)) : "";
			if (k == 0) {
				static const char *m[] = {"j", "k", "l", "h", "w", "b", "e", "$", "0", "^", "G", "1G", "H", "M", "L", "}", "{", "+", "-", "fa", "Fa", "tb", ";", ",", "%", "W", "B", "|", "n", "N", "/a\n", "?e\n", "``", "''"};
				std::string mv = m[r.below(34)];
				if (mv == "G" && r.chance(1, 2)) s.keys = std::to_string(r.range(1, 80)) + "G";
				else if (mv == "|") s.keys = std::to_string(r.range(1, 200)) + "|";
				else if (mv == "0") s.keys = mv;	// a count before 0 would just be a longer count
				else s.keys = c + mv;
			} else if (k == 1) {
				static const char *sc[] = {"\x05", "\x19", "\x04", "\x15", "\x06", "\x02", "z.", "z-", "z\n"};
				s.keys = c + sc[r.below(9)];
			} else if (k == 2) {
				static const char *ed[] = {"x", "X", "dd", "dw", "D", "p", "P", "J", "rX", "~", ">>", "<<", "yyp", "ddp", "u", "\x12", "."};
				int e = (int) r.below(24);
				if (e < 17) s.keys = c + ed[e];
				else if (e == 17) s.keys = "o" + gen_text_line(r, p.cols) + "\x1b";
				else if (e == 18) s.keys = "O" + gen_line(r, r.range(0, 20), A_LOWER) + "\x1b";
				else if (e == 19) s.keys = "i" + gen_line(r, r.range(1, 30), A_LOWER) + "\x1b";
				else if (e == 20) s.keys = "A" + gen_line(r, r.range(1, p.cols), A_LOWER) + "\x1b";
				else if (e == 21) s.keys = "o" + gen_line(r, 5, A_LOWER) + "\n" + gen_line(r, 5, A_LOWER) + "\n" + gen_line(r, 3, A_LOWER) + "\x1b";
				else if (e == 22) s.keys = "cw" + gen_line(r, r.range(1, 8), A_LOWER) + "\x1b";
				else s.keys = "C" + gen_line(r, r.range(0, 8), A_LOWER) + "\x1b";
			} else if (k == 3) {
				static const char *exs[] = {"1d", "$d", "1,3d", "%s/a/AA/g", "2pu", "g/b/d", "1,3p", "1,2p", "5", "$", "2,4>", "se hll", "se nohll", "se hl", "se nohl", "1,3y", "0pu", "u", "redo", "%d", "1,5!sort", "2r !seq 3", "=", "f", "1d|99p", "2pu|nosuchcmd", "%s/a/AA/g|77d", "$d|1,3p", "1,2y|0pu|88p"};
				s.keys = ":" + std::string(exs[r.below(29)]) + "\n";
			} else if (k == 4) {
				static const char *b[] = {":e! G.c\n", ":e! F\n", "\x1e", ":e #\n", ":b +\n", ":b -\n"};
				s.keys = b[r.below(6)];
			} else if (k == 5 && resizes) {
				s.op = "resize"; s.n1 = r.range(3, 40); s.n2 = r.range(10, 120);
			} else {
				s.op = "check"; s.keys = "\x0c";
			}
			if (s.op == "keys" && resizes && r.chance(1, 20)) {
				Fault f; f.seam = "any"; f.nth = (int) r.below(60); f.effect = "sigwinch"; f.arg = r.range(3, 40); f.arg2 = r.range(10, 120); f.err = r.chance(1, 2);
				s.faults.push_back(f);
				// the signal makes the editor abandon what it was reading (^C ^L are pushed) and the rest of the
				// step's keys are then read in whatever state that leaves; the user ends that state with ESC
				s.keys += "\x1b\x1b";
			}
			// an insert that a resize interrupted is recorded without its ESC: repeating it with . leaves the
			// editor in insert mode until the user types ESC (not a statement of C19; C09 excludes resizes)
			if (s.op == "keys" && had_fault && !s.keys.empty() && s.keys.back() == '.') s.keys += "\x1b\x1b";
			if (!s.faults.empty()) had_fault = true;
			if (s.op == "keys" && s.keys.empty()) continue;
			p.steps.push_back(s);
		}
		Step s; s.op = "check"; s.keys = "\x0c"; p.steps.push_back(s);
		return p;
	}

	// ------------------------------------------------------------ oracle
	std::vector<std::string> snap_rows;
	int snap_cr = 0, snap_cc = 0;
	bool have_snap = false;
	int snap_after = -1;
	bool disturbed = false;	// the window was resized inside the previous step: the next screen is not comparable

	void begin(RunCtx &) override { have_snap = false; snap_rows.clear(); disturbed = false; }

	static std::string keys_of(const RunCtx &c, int i) { if (i < 0 || i >= c.nsteps) return "<start>"; const Step &s = c.plan.steps[(size_t) i]; return s.op == "keys" || s.op == "check" ? vis(s.keys, 40) : s.op; }

	void take_snapshot(RunCtx &, int after)
	{
		snap_rows.clear();
		for (int r = 0; r < K.rows - 1; r++) snap_rows.push_back(K.vt.rowtext(r));
		snap_cr = K.vt.cr; snap_cc = K.vt.cc;
		have_snap = true; snap_after = after;
	}

	void clause1_3(RunCtx &c, int after)
	{
		int rows = K.rows - 1, cols = K.cols;
		if (rows < 1) return;
		int T = c.top(), L = c.left(), n = c.nlines();
		int xrow = c.row(), xoff = c.off();
		std::string ctx = "after step " + std::to_string(after) + " " + keys_of(c, after) + " (window " + std::to_string(K.rows) + "x" + std::to_string(K.cols) + ", top " + std::to_string(T) + ", left " + std::to_string(L) + ", cursor line " + std::to_string(xrow + 1) + ")";
		c.compared();
		if (n > 0 && (xrow < T || xrow >= T + rows))
			c.violate("C19/window/cursor-line-outside", ctx + ": the window does not contain the cursor line");
		for (int i = 0; i < rows; i++) {
			int ln = T + i;
			std::string want;
			bool modelled = true;
			if (ln < n) {
				std::vector<std::string> cells; std::vector<int> cont;
				modelled = ScreenModel::render(c.line(ln), L, cols, cells, cont, nullptr, nullptr);
				if (modelled) want = ScreenModel::rowtext(cells, cont);
			} else want = ln && L == 0 ? "~" : "";	// the filler is drawn as a line "~" at the common left offset
			if (!modelled) { c.count("rows_outside_model_alphabet"); continue; }
			c.count("rows_compared_with_model");
			std::string got = K.vt.rowtext(i);
			if (got != want) {
				// name the failure: is the row showing some other line of the buffer (stale / shifted)?
				std::string cls = "C19/window/row-differs";
				for (int d = -3; d <= 3 && cls == "C19/window/row-differs"; d++) {
					if (!d || ln + d < 0) continue;
					std::vector<std::string> cells; std::vector<int> cont;
					std::string other = ln + d < n ? (ScreenModel::render(c.line(ln + d), L, cols, cells, cont, nullptr, nullptr) ? ScreenModel::rowtext(cells, cont) : "\x01") : (L == 0 ? "~" : "");
					if (other == got && got != "~") cls = "C19/window/stale-or-shifted-row";
				}
				if (got.empty() && !want.empty()) cls = "C19/window/missing-row";
				c.violate(cls, ctx + ": screen row " + std::to_string(i) + " shows \"" + vis(got, 60) + "\" but buffer line " + std::to_string(ln + 1) + " renders as \"" + vis(want, 60) + "\"");
			}
		}
		// (3) the cursor
		if (n > 0 && xrow >= T && xrow < T + rows) {
			std::vector<std::string> cells; std::vector<int> cont, ccol, cwid;
			std::string line = c.line(xrow);
			if (ScreenModel::render(line, L, cols, cells, cont, &ccol, &cwid)) {
				c.count("cursor_compared");
				int want_r = xrow - T;
				if (K.vt.cr != want_r)
					c.violate("C19/cursor/wrong-row", ctx + ": terminal cursor on row " + std::to_string(K.vt.cr) + ", cursor line is on row " + std::to_string(want_r));
				if (!ccol.empty()) {
					int o = xoff < (int) ccol.size() ? xoff : (int) ccol.size() - 1;
					if (o < 0) o = 0;
					int b = ccol[(size_t) o] - L, e = b + cwid[(size_t) o] - 1;
					if (K.vt.cc < b || K.vt.cc > e)
						c.violate("C19/cursor/wrong-column", ctx + ": terminal cursor in column " + std::to_string(K.vt.cc) + " but character " + std::to_string(o) + " of the cursor line occupies columns " + std::to_string(b) + ".." + std::to_string(e));
				} else if (K.vt.cc != 0)
					c.violate("C19/cursor/wrong-column", ctx + ": empty line but the terminal cursor is in column " + std::to_string(K.vt.cc));
			}
		}
	}

	void quiescent(RunCtx &c, int after) override
	{
		if (after < 0) { take_snapshot(c, after); return; }
		const Step &s = c.plan.steps[(size_t) after];
		if (s.op == "resize") { disturbed = false; }
		bool mid_resize = false;
		for (auto &f : s.faults) if (f.effect == "sigwinch") mid_resize = true;
		if (K.vt.rows != K.rows || K.vt.cols != K.cols) return;
		// a SIGWINCH that lands inside a step makes the editor abandon what it was doing and repaint
		// (^C ^L are pushed); whatever the rest of the step's keys then did is not a "complete command"
		if (mid_resize) c.count("steps_with_resize_inside");
		if (s.op == "check" && have_snap && snap_after == after - 1) {
			// (2) a full repaint must not change what is shown
			c.compared();
			c.count("repaints_compared");
			for (int r = 0; r < K.rows - 1 && r < (int) snap_rows.size(); r++) {
				std::string now = K.vt.rowtext(r);
				if (now != snap_rows[(size_t) r])
					c.violate("C19/repaint/row-differs", "before ^L (after step " + std::to_string(after - 1) + " " + keys_of(c, after - 1) + ") screen row " + std::to_string(r) + " showed \"" + vis(snap_rows[(size_t) r], 60) +
						"\"; a full repaint draws \"" + vis(now, 60) + "\" (window " + std::to_string(K.rows) + "x" + std::to_string(K.cols) + ")");
			}
			// the cursor: the same row; the column is judged by clause 3 on both sides (a character may
			// span several cells, e.g. a tab, and either of its cells is "on the character")
			if (K.vt.cr != snap_cr)
				c.violate("C19/repaint/cursor-differs", "before ^L (after step " + std::to_string(after - 1) + " " + keys_of(c, after - 1) + ") the terminal cursor was on row " + std::to_string(snap_cr) +
					"; after a full repaint it is on row " + std::to_string(K.vt.cr));
		}
		clause1_3(c, after);
		take_snapshot(c, after);
		Fnv h; h.num((unsigned long long) c.top()); h.num((unsigned long long) c.left()); h.num((unsigned long long) c.row()); h.num((unsigned long long) c.nlines());
		c.state(h.h);
	}

	void finish(RunCtx &c) override
	{
		if (K.vt.unknown) c.count("vt_unknown_sequences", K.vt.unknown);
	}
};

CheckReg reg(new C19);

} // namespace
