// C09 — Repeat, macro and count: '.', '@r' and N-fold equal retyping.
// Twin executions inside the simulator, no reference model: run B retypes the
// keystrokes, run A uses '.', 'N.' or '@r' / 'N@r'; at the end text, cursor and
// registers must be identical.  The unit under test is the input path:
// term_cmd() recording, term_push() re-queueing, vi_back()'s key stack.
#include "common.h"

namespace {

struct Snap {
	std::vector<std::string> text;
	int row = 0, off = 0;
	std::map<int, std::string> regs;
	bool valid = false;
};

struct C09 : Check {
	const char *id() const override { return "C09"; }
	std::string rule() const override {
		return "twin runs of 'vi -v': a prefix P (motions, edits), a change command c from the repeat set (x X D C S Y J p P r ~ s o O i a I A, d c y < > ! g~ gu gU with motions, with count and register prefixes, inserts with multi-byte text and insert-mode keys, "
			"commands that prompt: !motion cmd<CR>), then in run A '.' / 'N.' and in run B the keystrokes of c again (N times); or: load register r with K (K may contain '.', counts, ESC-terminated inserts and '@' of another register), "
			"then A: '@r' / 'N@r', B: K typed (N times); then a common suffix S. Oracle: identical final text, cursor (line, character) and registers a-z, 0-9, unnamed. "
			"non-trivial = both runs reached the comparison point; distinct = distinct event-log fingerprints of run A";
	}
	std::vector<std::string> assumptions() const override {
		return {"recorded commands stay far below the 4 KiB recording buffer (stated bound of the property)",
			"think time and SIGWINCH are off: a resize injects ^C ^L keys and is not 'retyping'",
			"filter commands used under '!' are deterministic catalogue children (tr, sort, rev)"};
	}

	struct G {
		Rng &r; int uniq = 0;
		explicit G(Rng &r_) : r(r_) {}
		std::string word() { return (r.chance(1, 5) ? utf8_enc(0xe9) + utf8_enc(0x4e2d) : std::string()) + "v" + std::to_string(++uniq) + gen_line(r, r.range(0, 4), A_LOWER); }
		std::string motion() { static const char *m[] = {"w", "b", "e", "l", "h", "$", "0", "j", "k", "G", "1G", "fa", "tb", "W", "}", "{", "2w", "3l", "^", "%", "\x0c"}; return m[r.below(21)]; }	// ^L re-initialises the terminal: pushed keys must survive it
		std::string opmotion() { static const char *m[] = {"w", "e", "b", "$", "0", "l", "h", "j", "k", "fa", "tz", "2w", "W", "}", "G", "iw_no"}; std::string s = m[r.below(15)]; return s; }
		std::string change(bool allow_prompt)
		{
			std::string cnt = r.chance(1, 3) ? std::to_string(r.range(2, 4)) : "";
			std::string reg = r.chance(1, 4) ? "\"" + std::string(1, (char) ('a' + r.below(4))) : r.chance(1, 12) ? "\"" + std::string(1, (char) ('A' + r.below(4))) : "";
			std::string pre = r.chance(1, 2) ? reg + cnt : cnt + reg;
			switch (r.below(allow_prompt ? 26 : 23)) {	// registers are loaded from one text line: no newline inside K
			case 0: return pre + "x";
			case 1: return pre + "X";
			case 2: return pre + "dd";
			case 3: return pre + "d" + opmotion();
			case 4: return pre + "D";
			case 5: return pre + "p";
			case 6: return pre + "P";
			case 7: return pre + "J";
			case 8: return pre + "r" + std::string(1, (char) ('A' + r.below(26)));
			case 9: return pre + "~";
			case 10: return pre + "o" + word() + "\x1b";
			case 11: return pre + "O" + word() + "\x1b";
			case 12: return pre + "i" + word() + (allow_prompt && r.chance(1, 4) ? std::string(1, '\0') + word() : std::string()) + "\x1b";	// ^@ is a key like any other
			case 13: return pre + "a" + word() + " " + word() + "\x1b";
			case 14: return pre + "A" + word() + "\x1b";
			case 15: return pre + "I" + word() + "\x1b";
			case 16: {
				// a motion that can fail (fa, tz) would abort the change and turn the typed text into commands;
				// '.' then repeats only the failed 'c<motion>', which is not what "retyping" the intended change does
				static const char *safe[] = {"w", "e", "b", "$", "0", "l", "h", "j", "k", "2w", "W", "}", "G"};
				return pre + "c" + safe[r.below(13)] + word() + "\x1b";
			}
			case 17: return pre + "C" + word() + "\x1b";
			case 18: return pre + "s" + word() + "\x1b";
			case 19: return pre + "S" + word() + "\x1b";
			case 20: return pre + (r.chance(1, 2) ? ">>" : "<<");
			case 21: return pre + "y" + opmotion();
			case 22: { static const char *g[] = {"g~", "gu", "gU"}; return pre + g[r.below(3)] + opmotion(); }
			case 23: return pre + "i" + word() + "\n" + word() + "\x08\x08" + word() + "\x17" + word() + "\x1b";
			case 24: { static const char *f[] = {"tr a-z A-Z", "sort", "rev", "cat"}; return pre + "!" + (r.chance(1, 2) ? "}" : "j") + f[r.below(4)] + "\n"; }
			default: { static const char *f[] = {"tr a-z A-Z", "sort", "rev"}; return pre + "!!" + f[r.below(3)] + "\n"; }
			}
		}
	};

	static std::string times(const std::string &s, long n) { std::string o; for (long i = 0; i < n; i++) o += s; return o; }
	// how to type K as text in insert mode: control characters need ^V
	static std::string literal(const std::string &k)
	{
		std::string o;
		for (unsigned char ch : k) { if (ch < 0x20 || ch == 0x7f) o += '\x16'; o += (char) ch; }
		return o;
	}
	static Step both(const std::string &a, const std::string &b, const char *kind)
	{
		Step s = keys_step(a);
		s.meta = Json::obj();
		s.meta.set("k", kind);
		if (a != b) s.meta.set("alt", b);
		return s;
	}

	Plan generate(unsigned long long seed, int tier) override
	{
		Rng r(seed * 0x9e3779b97f4a7c15ull + 0xC09);
		Plan p = base_plan("C09", seed, "vi");
		p.rows = (int) r.range(8, 30); p.cols = (int) r.range(40, 120);
		p.knobs.think_ns = 1000;
		G g(r);
		FileSpec f; f.path = "F"; f.mtime = -100;
		int nl = (int) r.range(3, 14);
		for (int i = 0; i < nl; i++) {
			int k = (int) r.below(8);
			if (k == 0) f.data += "\n";
			else if (k == 1) f.data += "\t" + g.word() + " (a " + g.word() + ") z\n";
			else f.data += g.word() + " " + g.word() + " a.b " + g.word() + (r.chance(1, 3) ? " " + g.word() + " z" : "") + "\n";
		}
		p.files.push_back(f);
		p.argv.push_back("F");
		p.env.clear(); p.env.push_back({"EXINIT", r.chance(1, 3) ? "se noai" : ""});
		if (r.chance(1, 120)) {
			// 'N.' where N copies of the recorded command fill the 4 KiB input buffer exactly, nearly, or not
			// quite: the statement covers all repeat counts of a (short) recorded command
			static const char *cmds[] = {"x", "dl", "\"add", "rZ"};
			std::string cmd = cmds[r.below(4)];
			long len = (long) cmd.size();
			bool over = r.chance(1, 2);
			long n = over ? 4096 / len + r.range(1, 4) : 4096 / len - r.range(0, 1);
			p.variant = over ? "dot-overflow" : "dot-fill";
			p.files[0].data.clear();
			if (cmd == "\"add") for (long i = 0; i < n + 10; i++) p.files[0].data += "l" + std::to_string(i) + "\n";
			else p.files[0].data = std::string((size_t) (n + 20), 'q') + "\nsecond\n";
			p.steps.push_back(both(cmd, cmd, "change"));
			p.steps.push_back(both(std::to_string(n) + ".", times(cmd, n), "repeat"));
			p.steps.push_back(both("ix\x1b", "ix\x1b", "suffix"));
			return p;
		}
		int np = (int) r.range(0, 5);
		for (int i = 0; i < np; i++) { std::string k = r.chance(1, 2) ? g.motion() : g.change(true); p.steps.push_back(both(k, k, "prefix")); }
		int variant = (int) r.below(3);
		if (variant == 0) {		// '.' and 'N.'
			p.variant = "dot";
			std::string c = g.change(true);
			p.steps.push_back(both(c, c, "change"));
			int reps = (int) r.range(1, 3);
			for (int i = 0; i < reps; i++) {
				if (r.chance(1, 2)) { std::string m = g.motion(); p.steps.push_back(both(m, m, "move")); }
				long n = r.chance(1, 3) ? r.range(2, 4) : 1;
				if (c.find('!') != std::string::npos && n > 1) {
					// keys typed while a filter runs are swallowed by the filter loop (it watches the terminal
					// for ^C), so a user retypes a filter command only after the previous one finished:
					// one step per repetition in run B, nothing in run A
					p.steps.push_back(both(std::to_string(n) + ".", c, "repeat"));
					for (long j = 1; j < n; j++) p.steps.push_back(both("", c, "repeat"));
				} else
					p.steps.push_back(both(n > 1 ? std::to_string(n) + "." : ".", times(c, n), "repeat"));
			}
		} else {			// '@r' and 'N@r'
			p.variant = variant == 1 ? "macro" : "macro-nested";
			char rg = (char) ('m' + r.below(4));
			std::string K;
			int nk = (int) r.range(1, 4);
			for (int i = 0; i < nk; i++) {
				int k = (int) r.below(10);
				if (k < 5) K += g.change(false);
				else if (k < 8) K += g.motion();
				else K += ".";
			}
			std::string K2;
			char rg2 = (char) ('q' + r.below(3));
			if (variant == 2) {
				K2 = g.change(false) + g.motion();
				// load the inner register first, then reference it from K
				std::string load2 = "o" + literal(K2) + "\x1b" + "^\"" + std::string(1, rg2) + "y$dd";
				p.steps.push_back(both(load2, load2, "load"));
				size_t at = r.below(K.size() + 1);
				// insert only at a command boundary: append or prepend
				if (at < K.size() / 2) K = "@" + std::string(1, rg2) + K; else K += "@" + std::string(1, rg2);
			}
			std::string load = "o" + literal(K) + "\x1b" + "^\"" + std::string(1, rg) + "y$dd";
			p.steps.push_back(both(load, load, "load"));
			if (r.chance(1, 2)) { std::string m = g.motion(); p.steps.push_back(both(m, m, "move")); }
			long n = r.chance(1, 3) ? r.range(2, 3) : 1;
			std::string typed = K;
			if (variant == 2) {
				// typing K means typing the inner register's contents where K says @q
				std::string ref = "@" + std::string(1, rg2);
				size_t pos = typed.find(ref);
				if (pos != std::string::npos) typed.replace(pos, ref.size(), K2);
			}
			p.steps.push_back(both((n > 1 ? std::to_string(n) : "") + "@" + std::string(1, rg), times(typed, n), "exec"));
			// (in the nested variant the last register executed is the inner one, so @@ is not "K again")
			if (variant == 1 && r.chance(1, 3)) p.steps.push_back(both("@@", typed, "exec-again"));
		}
		int ns = (int) r.range(0, 4);
		for (int i = 0; i < ns; i++) { Step s = keys_step(r.chance(1, 2) ? g.motion() : g.change(true)); s.meta = Json::obj(); s.meta.set("k", "suffix"); p.steps.push_back(s); }
		(void) tier;
		return p;
	}

	bool twin(const Plan &p, Plan &out) override
	{
		out = p;
		for (auto &s : out.steps)
			if (s.meta.has("alt")) s.keys = s.meta.str("alt");
		return true;
	}

	int phase = 0;
	Snap b_end;
	void set_phase(int ph) override { phase = ph; if (ph == 1) b_end = Snap(); }

	Snap capture(RunCtx &c)
	{
		Snap s;
		s.text = c.text(); s.row = c.row(); s.off = c.off();
		static const char *names = "abcdefghijklmnopqrstuvwxyz0123456789";
		for (const char *n = names; *n; n++) if (c.has_reg(*n)) s.regs[*n] = c.reg(*n);
		if (c.has_reg(0)) s.regs[0] = c.reg(0);
		s.valid = true;
		return s;
	}

	void quiescent(RunCtx &c, int after) override
	{
		if (after != c.nsteps - 1) return;
		// the equivalence is about a change followed by its repeat, or a load followed by its execution:
		// a plan that lost the first half (during minimisation) compares nothing
		{
			int changes = 0, loads = 0, execs = 0, need_loads = c.plan.variant == "macro-nested" ? 2 : 1;
			for (auto &s : c.plan.steps) {
				std::string k = s.meta.str("k");
				if (k == "change") changes++;
				if (k == "load") loads++;
				if (k == "repeat" && !changes) return;
				if (k == "exec" && loads < need_loads) return;
				if (k == "exec") execs++;
				if (k == "exec-again" && !execs) return;
			}
		}
		Snap now = capture(c);
		if (phase == 1) { b_end = now; return; }
		if (phase != 2 || !b_end.valid) return;
		c.compared();
		std::string what = c.plan.variant;
		std::string keysA, keysB;
		for (auto &s : c.plan.steps) { keysA += s.keys; keysB += s.meta.has("alt") ? s.meta.str("alt") : s.keys; }
		std::string ctx = "A typed " + vis(keysA, 120) + " ; B typed " + vis(keysB, 160);
		if (now.text != b_end.text) {
			size_t i = 0;
			while (i < now.text.size() && i < b_end.text.size() && now.text[i] == b_end.text[i]) i++;
			c.violate("C09/" + what + "/text-differs", ctx + ": texts differ at line " + std::to_string(i + 1) + ": with " + (what == "dot" ? "'.'" : "'@'") + " \"" +
				vis(i < now.text.size() ? now.text[i] : "<none>", 50) + "\", retyped \"" + vis(i < b_end.text.size() ? b_end.text[i] : "<none>", 50) + "\" (" +
				std::to_string(now.text.size()) + " vs " + std::to_string(b_end.text.size()) + " lines)");
		}
		if (now.row != b_end.row || now.off != b_end.off)
			c.violate("C09/" + what + "/cursor-differs", ctx + ": cursor at line " + std::to_string(now.row + 1) + " char " + std::to_string(now.off) + " vs retyped line " + std::to_string(b_end.row + 1) + " char " + std::to_string(b_end.off));
		for (auto &kv : b_end.regs) {
			auto it = now.regs.find(kv.first);
			if (it == now.regs.end() || it->second != kv.second)
				c.violate("C09/" + what + "/register-differs", ctx + ": register " + (kv.first ? std::string(1, (char) kv.first) : std::string("unnamed")) + " holds \"" + vis(it == now.regs.end() ? "<unset>" : it->second, 40) + "\" vs retyped \"" + vis(kv.second, 40) + "\"");
		}
		for (auto &kv : now.regs)
			if (!b_end.regs.count(kv.first))
				c.violate("C09/" + what + "/register-differs", ctx + ": register " + std::string(1, (char) kv.first) + " is set only in the run that used " + (what == "dot" ? "'.'" : "'@'"));
		Fnv h; for (auto &l : now.text) h.str(l);
		c.state(h.h);
	}
};

CheckReg reg(new C09);

} // namespace
