// C02 — Unsaved changes are never silently discarded on quit, edit or buffer switch.
// C20 — Each open buffer keeps its own text, position and dirty state across switches.
// Both are decided against the BufTableModel (models/buftable.h) over histories
// of edits, undo/redo, whole/partial/foreign writes, reloads, buffer switches,
// quits, with an external writer touching open files and (C02) faults on writes.
#include "common.h"
#include "../models/buftable.h"
#include <cerrno>

namespace {

struct BufCheck : Check {
	std::string pid;
	explicit BufCheck(const char *id_) : pid(id_) {}
	const char *id() const override { return pid.c_str(); }
	bool c20() const { return pid == "C20"; }
	std::string rule() const override {
		if (c20())
			return "histories (<= 60 steps) over 2..16 files in 'vi -s -e' and 'vi -v': :e path, :e #, :e of an open path, :b N / + / - / # / %, ^^, zj, zk, :b ! (delete), :b ~ (renumber), edits, undo/redo, :w, :q, "
				"with an external writer rewriting open files between commands. After every step the buffer reached must be the one named, its text / current line / undo history exactly what the model holds for that path, "
				"re-editing an open path must not open() the file (syscall log) and must show the in-memory text; :q with a dirty buffer anywhere must refuse and make a dirty buffer current. "
				"non-trivial = at least one switch compared; distinct = distinct event-log fingerprints";
		return "histories (<= 40 steps, <= 16 buffers) over modifying ex and vi commands, u / ^R / :u / :redo, :w, :a,bw (own path), :w other, :w!, :e!, :e path, :e #, :b N|+|-|#, ^^, :q, :wq, :x, ZZ and ^G / :b observations of the '*' flag; "
			"a fault batch fails some :w (ENOSPC/EIO/short-then-error) and an external writer makes :w be refused by the mtime guard. Oracle: (S) text != saved text => quit/:e/:b refused, nothing changes; "
			"(L) right after a successful whole write or when undo/redo is back at the saved history position => allowed; (I) no '*' shown => text == saved text. "
			"non-trivial = at least one S/L/I decision compared; distinct = distinct event-log fingerprints";
	}
	std::vector<std::string> assumptions() const override {
		return {"autowrite / writeany stay off (the statement excludes them)",
			"never more than 16 distinct paths: the 17th evicts the least recently used slot by design",
			"text produced by modifying commands is taken from the probe (what edits do is C06/C08); the model decides identity, history, saved state and refusals",
			"a failed reload (:e! on a vanished file) is not generated: the statement defines the saved state by successful reads/writes only"};
	}
	std::vector<std::string> excluded() const override {
		return {"nothing is asserted when text returned to the saved text by a different edit (the statement does not promise cleanliness there)",
			":b ! (forced delete of the current buffer) counts as a '!' form"};
	}

	// ------------------------------------------------------------ generator
	struct G {
		Rng &r; Plan &p; bool vi;
		std::vector<std::string> open;	// paths believed open, MRU
		int nfiles;
		int uniq = 0;
		G(Rng &r_, Plan &p_, bool vi_) : r(r_), p(p_), vi(vi_), nfiles(0) {}
		void add(const std::string &cmdline, Json m) { Step s = ex_step(p, cmdline); s.meta = m; p.steps.push_back(s); }
		void addkeys(const std::string &keys, Json m) { Step s = keys_step(keys); s.meta = m; p.steps.push_back(s); }
		static Json M(const char *k) { Json m = Json::obj(); m.set("k", k); return m; }
	};

	Plan generate(unsigned long long seed, int tier) override
	{
		Rng r(seed * 0x9e3779b97f4a7c15ull + (c20() ? 0xC20 : 0xC02));
		bool vi = r.chance(1, 3);
		Plan p = base_plan(pid.c_str(), seed, vi ? "vi" : "exs");
		p.rows = (int) r.range(6, 30); p.cols = (int) r.range(30, 100);
		G g(r, p, vi);
		int nfiles = c20() ? (int) r.range(2, r.chance(1, 4) ? 16 : 6) : (int) r.range(1, r.chance(1, 6) ? 16 : 4);
		// sometimes the editor starts without a file: the unnamed buffer can be modified, left and forgotten
		// (it occupies one of the 16 slots: the statement is about up to 16 open buffers)
		bool unnamed_start = !c20() && r.chance(1, 6);
		if (unnamed_start && nfiles > 15) nfiles = 15;
		g.nfiles = nfiles;
		for (int i = 0; i < nfiles; i++) {
			FileSpec f;
			f.path = "F" + std::to_string(i);
			int nl = (int) r.range(0, 8);
			for (int k = 0; k < nl; k++) f.data += "f" + std::to_string(i) + " line " + std::to_string(k) + " " + gen_line(r, r.range(0, 12), A_LOWER) + "\n";
			// now and then a line beyond the 4 KiB write batch (written on its own path in lbuf_wr)
			if (!c20() && r.chance(1, 12)) f.data += "long " + gen_line(r, r.range(4090, 4200), A_LOWER) + "\n";
			f.mtime = -100 - i;
			p.files.push_back(f);
		}
		p.meta = Json::obj(); p.meta.set("unnamed_start", unnamed_start);
		if (!unnamed_start) p.argv.push_back("F0");
		g.open.push_back(unnamed_start ? "" : "F0");
		bool faults = !c20() && r.chance(1, 3);
		bool toucher = r.chance(1, 3);
		if (nfiles == 16 && r.chance(3, 4)) {
			// fill the whole table: edit some buffers and leave them with the forced form, which keeps
			// the dirty buffer in memory; the least recently used one ends up in the last slot
			for (int i = 1; i < 16; i++) {
				if (r.chance(1, 4) || i == 1) gen_edit(g);
				Json m = G::M("eforce"); m.set("path", "F" + std::to_string(i));
				g.add("e! F" + std::to_string(i), m);
			}
		}
		int nsteps = (int) r.range(4, c20() ? 60 : 40);
		if (tier == 0 && nsteps > 30 && r.chance(1, 2)) nsteps = 30;
		for (int i = 0; i < nsteps; i++) {
			int k = r.weighted(c20() ? std::vector<int>{24, 8, 4, 6, 1, 1, 1, 14, 6, 14, 3, 1, 4, 5, 4}
						 : std::vector<int>{26, 10, 5, 10, 5, 4, 4, 6, 3, 6, 1, 0, 8, 6, 3});
			switch (k) {
			case 0: gen_edit(g); break;
			case 1: if (vi) g.addkeys("u", G::M("undo")); else g.add("u", G::M("undo")); break;
			case 2: if (vi) g.addkeys("\x12", G::M("redo")); else g.add("redo", G::M("redo")); break;
			case 3: {
				Step s = ex_step(p, "w");
				s.meta = G::M("w");
				if (faults && r.chance(1, 2)) {
					Fault f; f.seam = "fwrite"; f.nth = 0;
					if (r.chance(1, 2)) { f.effect = "err"; f.err = r.chance(1, 2) ? ENOSPC : EIO; }
					else { f.effect = "short_err"; f.arg = r.range(1, 20); f.err = ENOSPC; }
					s.faults.push_back(f);
				}
				p.steps.push_back(s);
				break;
			}
			case 4:
				if (r.chance(1, 3)) {
					// edit, whole write, edit - all inside one ex command line
					Json m = G::M("swsq");
					std::string a(1, (char) ('A' + r.below(26))), b(1, (char) ('a' + r.below(26)));
					m.set("a", a).set("b", b);
					g.add("1s/^/" + a + "/|w|1s/^/" + b + "/", m);
					break;
				}
				{ Json m = G::M("wpart"); long a = r.range(1, 3), b = r.range(a, a + 3); m.set("a", a).set("b", b); g.add(std::to_string(a) + "," + std::to_string(b) + "w", m); break; }
			case 5:
				if (r.chance(1, 3)) {
					// the text piped to a command: no file is written, nothing about the buffer changes
					static const char *sink[] = {"wc -l", "cat", "true", "head -1"};
					g.add("w !" + std::string(sink[r.below(4)]), G::M("wpipe"));
					break;
				}
				{ Json m = G::M("wother"); std::string o = "O" + std::to_string(r.below(2)); m.set("path", o); g.add("w! " + o, m); break; }
			case 6:
				if (faults && r.chance(1, 2)) {
					// the reload itself fails: the file cannot be opened, or reading it breaks off
					Step s = ex_step(p, "e!"); s.meta = G::M("reload");
					Fault f; f.nth = 0;
					if (r.chance(1, 2)) { f.seam = "fopen"; f.effect = "err"; f.err = r.chance(1, 2) ? EACCES : EMFILE; }
					else { f.seam = "fread"; f.effect = "err"; f.err = EIO; f.nth = (int) r.below(2); }
					s.faults.push_back(f);
					p.steps.push_back(s);
					break;
				}
				g.add("e!", G::M("reload")); break;
			case 7: {
				std::string path = "F" + std::to_string(r.below((uint64_t) nfiles));
				Json m = G::M("e"); m.set("path", path);
				g.add("e " + path, m);
				break;
			}
			case 8:
				if (r.chance(1, 3)) {
					std::string path = "F" + std::to_string(r.below((uint64_t) nfiles));
					Json m = G::M("eforce"); m.set("path", path);
					g.add("e! " + path, m);
				} else if (vi && r.chance(1, 2)) g.addkeys("\x1e", G::M("ealt")); else g.add("e #", G::M("ealt"));
				break;
			case 9: {
				int how = (int) r.below(5);
				Json m = G::M("b");
				if (how == 0) { long id = r.range(1, nfiles + 1); m.set("how", "id").set("id", id); g.add("b " + std::to_string(id), m); }
				else if (how == 1) { m.set("how", "+"); if (vi && r.chance(1, 2)) g.addkeys("zj", m); else g.add("b +", m); }
				else if (how == 2) { m.set("how", "-"); if (vi && r.chance(1, 2)) g.addkeys("zk", m); else g.add("b -", m); }
				else if (how == 3) { m.set("how", "#"); g.add("b #", m); }
				else { m.set("how", "%"); g.add("b %", m); }
				break;
			}
			case 10: g.add("b !", G::M("bdel")); break;
			case 11: g.add("b ~", G::M("bnum")); break;
			case 12: g.add("q", G::M("q")); break;
			case 13:
				if (vi) g.addkeys("\x07", G::M("status")); else g.add("b", G::M("status"));
				break;
			case 14:
				if (toucher) {
					Step s; s.op = "advance"; s.n1 = 1500000000l; p.steps.push_back(s);
					Step t; t.op = "touch"; t.path = "F" + std::to_string(r.below((uint64_t) nfiles));
					t.data = "rewritten by another process " + std::to_string(i) + "\nsecond line\n";
					p.steps.push_back(t);
				} else gen_edit(g);
				break;
			}
		}
		if (!c20() && r.chance(1, 3)) {
			int w = (int) r.below(3);
			if (w == 0) g.add("wq", G::M("wq")); else if (w == 1) g.add("x", G::M("wq")); else if (vi) g.addkeys("ZZ", G::M("wq")); else g.add("x", G::M("wq"));
		} else if (!c20() && r.chance(1, 5)) g.add("xa", G::M("xa"));
		else g.add("q", G::M("q"));
		return p;
	}

	static void gen_edit(G &g)
	{
		Json m = G::M("edit");
		std::string u = "u" + std::to_string(++g.uniq) + gen_line(g.r, g.r.range(0, 6), A_LOWER);
		int how = (int) g.r.below(5);
		if (g.vi) {
			if (how == 0) g.addkeys("o" + u + "\x1b", m);
			else if (how == 1) g.addkeys("i" + u + "\x1b", m);
			else if (how == 2) g.addkeys("A" + u + "\x1b", m);
			else if (how == 3) g.addkeys("O" + u + "\x1b", m);
			else g.addkeys("G" + std::string("o") + u + "\x1b", m);
		} else {
			if (how <= 1) g.add("$a\n" + u + "\n.", m);
			else if (how == 2) g.add("0a\n" + u + "\n.", m);
			else if (how == 3) g.add("1i\n" + u + "\n.", m);
			else g.add("$a\n" + u + "\n" + u + "x\n.", m);
		}
	}

	// ------------------------------------------------------------ oracle
	BufTable T;
	std::map<std::string, long> fired_before;
	bool vi_mode = false;

	std::string V(const std::string &clause) const { return pid + "/" + clause; }

	void begin(RunCtx &c) override
	{
		T = BufTable();
		vi_mode = is_vi(c.plan);
		fired_before.clear();
	}

	static Text fs_text(const std::string &path) { auto it = K.fs.find(path); return it == K.fs.end() ? Text() : file_lines(it->second.data); }

	std::string message(RunCtx &c) { return vi_mode ? K.vt.rowtext(K.rows - 1) + "\n" + c.step_output() : c.step_output(); }

	// compare the editor's current buffer with model slot 0
	void check_current(RunCtx &c, const std::string &ctx, bool check_pos)
	{
		MBuf &b = T.cur();
		c.compared();
		if (c.path() != b.path)
			c.violate(V("switch/wrong-buffer"), ctx + ": current buffer is \"" + c.path() + "\", the model says \"" + b.path + "\"");
		Text now = c.text();
		if (now != b.text) {
			size_t i = 0;
			while (i < now.size() && i < b.text.size() && now[i] == b.text[i]) i++;
			c.violate(V("switch/text-changed"), ctx + ": buffer \"" + b.path + "\" has " + std::to_string(now.size()) + " lines, the model " + std::to_string(b.text.size()) +
				"; first difference at line " + std::to_string(i + 1) + " (got \"" + vis(i < now.size() ? now[i] : "<none>", 40) + "\" expected \"" + vis(i < b.text.size() ? b.text[i] : "<none>", 40) + "\")");
		}
		if (check_pos && !b.text.empty()) {
			if (c.row() != b.row)
				c.violate(V("switch/line-lost"), ctx + ": buffer \"" + b.path + "\" is at line " + std::to_string(c.row() + 1) + ", it was left at line " + std::to_string(b.row + 1));
		}
	}

	// a leave (:e / :b / ^^) was attempted towards slot idx (-1: no such buffer / new path)
	void leave(RunCtx &c, const Step &s, int idx, const std::string &newpath, bool forced = false)
	{
		std::string msg = message(c);
		std::string ctx = "step " + std::to_string(c.cur) + " " + vis(s.keys, 30);
		MBuf &b = T.cur();
		bool refused = msg.find("buffer modified") != std::string::npos;
		bool differs = b.saved_known && b.differs();
		if (idx < 0 && newpath.empty()) {
			// no such buffer: nothing may change (the dirty check comes after the lookup)
			check_current(c, ctx + " (no such buffer)", false);
			return;
		}
		c.compared();
		if (forced) {
			if (refused) c.violate(V("liveness/forced-leave-refused"), ctx + ": the '!' form was refused");
			differs = false;
			c.count("forced_leave");
		}
		if (differs && !refused) {
			std::string cls = b.partial_own_write ? "safety/leave-after-partial-own-write" : "safety/leave-allowed-while-dirty";
			c.violate(V(cls), ctx + ": buffer \"" + b.path + "\" differs from its file (" + std::to_string(b.text.size()) + " vs " + std::to_string(b.saved_text.size()) + " lines) but the editor left it");
		}
		if (refused) {
			c.count("leave_refused");
			if (b.saved_known && !b.fuzzy_undo && b.at_saved_pos())
				c.violate(V("liveness/leave-refused-while-clean"), ctx + ": buffer \"" + b.path + "\" is at its saved state (written or undone back) but leaving it was refused");
			check_current(c, ctx + " (refused)", false);
			return;
		}
		c.count("leave_allowed");
		b.row = b.row; // position was recorded at the previous quiescent point
		if (idx >= 0) {
			bool reopened = !newpath.empty();
			T.front(idx);
			if (reopened) {
				for (auto &o : K.opens)
					if (o == newpath) c.violate(V("switch/reread-open-file"), ctx + ": \"" + newpath + "\" is already open but the file was opened again");
				c.count("reedit_open_path");
			}
			check_current(c, ctx, true);
		} else {
			T.open_new(newpath, fs_text(newpath));
			check_current(c, ctx + " (newly opened)", false);
		}
	}

	void quiescent(RunCtx &c, int after) override
	{
		if (after == -1) {
			if (c.plan.meta.boolean("unnamed_start")) T.open_new("", Text());
			else T.open_new("F0", fs_text("F0"));
			check_current(c, "start", false);
		} else step_done(c, c.plan.steps[(size_t) after]);
		// remember where the current buffer is left
		if (!T.slots.empty()) {
			T.cur().row = c.row();
			T.cur().off = c.off();
		}
		fired_before = K.fired;
		Fnv h;
		for (auto &b : T.slots) { h.str(b.path); h.num((unsigned long long) b.pos); h.num((unsigned long long) b.saved_pos); h.num((unsigned long long) b.text.size()); }
		c.state(h.h);
	}

	void step_done(RunCtx &c, const Step &s)
	{
		if (s.op == "touch") { for (auto &x : T.slots) if (x.path == s.path) x.file_changed_outside = true; return; }
		if (s.op != "keys") return;
		std::string k = s.meta.str("k");
		std::string ctx = "step " + std::to_string(c.cur) + " " + vis(s.keys, 30);
		std::string msg = message(c);
		MBuf &b = T.cur();
		// a successful read or whole write of the current buffer's own file brings editor and file back in step
		if ((k == "reload" || k == "w" || k == "swsq" || k == "wq") && (msg.find("[r]") != std::string::npos || msg.find("[w]") != std::string::npos) && msg.find("failed") == std::string::npos) b.file_changed_outside = false;
		if (k == "edit") {
			Text now = c.text();
			// generated edits add a uniquely named line, so an accepted edit always changes the text;
			// unchanged text means the command was rejected (e.g. an address on an empty buffer): no step
			if (now == b.text) c.count("edit_rejected");
			else b.edited(now);
			check_current(c, ctx, false);
		} else if (k == "undo" || k == "redo") {
			Text now = c.text();
			int dir = k == "undo" ? -1 : +1;
			if (b.fuzzy_undo) {
				b.text = now;	// depth ambiguous after a no-change step: resynchronise, assert nothing
				c.count("undo_fuzzy_skipped");
			} else {
				int np = b.pos + dir;
				c.compared();
				if (np < 0 || np >= (int) b.snaps.size()) {
					if (now != b.text) c.violate(V("undo/end-of-history-changed-text"), ctx + ": " + k + " at the end of history changed the text");
				} else {
					if (now != b.snaps[(size_t) np])
						c.violate(V("undo/wrong-text"), ctx + ": after " + k + " buffer \"" + b.path + "\" has " + std::to_string(now.size()) + " lines, the snapshot at that history position has " + std::to_string(b.snaps[(size_t) np].size()));
					b.pos = np;
					b.text = now;
				}
			}
		} else if (k == "w" || k == "wpart" || k == "wother") {
			bool ok = msg.find("[w]") != std::string::npos && msg.find("write failed") == std::string::npos;
			c.count(ok ? "writes_ok" : "writes_failed");
			if (ok && (k == "w" || (k == "wother" && !b.path.empty() && s.meta.str("path") == b.path))) { b.saved_text = b.text; b.saved_pos = b.pos; b.saved_known = true; b.partial_own_write = false; }
			if (ok && k == "wpart") {
				// the file now holds exactly the written lines: that is "the content its file had when
				// last successfully written"; the buffer equals it only if the range was the whole text
				long a = s.meta.num("a"), e = s.meta.num("b");
				if (a >= 1 && e <= (long) b.text.size() && a <= e) {
					b.saved_text = Text(b.text.begin() + (a - 1), b.text.begin() + e);
					b.saved_known = true;
					if (b.saved_text == b.text) { b.saved_pos = b.pos; b.partial_own_write = false; }
					else { b.saved_pos = -1; b.partial_own_write = true; }
				}
			}
			if (ok && k == "wother" && b.path.empty()) {
				// writing an unnamed buffer gives it that name; it is then a whole write to its own path
				b.path = s.meta.str("path");
				b.saved_text = b.text; b.saved_pos = b.pos; b.saved_known = true; b.partial_own_write = false;
			}
			check_current(c, ctx, false);
		} else if (k == "wpipe") {
			c.count("pipe_writes");
			check_current(c, ctx, false);
		} else if (k == "swsq") {
			Text now = c.text();
			if (now == b.text) {
				// both substitutes were rejected (empty buffer); the :w in between still ran
				c.count("edit_rejected");
				if (msg.find("[w]") != std::string::npos && msg.find("write failed") == std::string::npos) {
					b.saved_text = b.text; b.saved_pos = b.pos; b.saved_known = true; b.partial_own_write = false;
				}
				return;
			}
			std::string a = s.meta.str("a"), bb = s.meta.str("b");
			Text mid = b.text, fin = b.text;
			if (!mid.empty()) { mid[0] = a + mid[0]; fin[0] = bb + a + fin[0]; }
			c.compared();
			if (now != fin) c.violate(V("switch/text-changed"), ctx + ": unexpected text after the compound command");
			bool ok = msg.find("[w]") != std::string::npos && msg.find("write failed") == std::string::npos;
			b.edited(now);
			b.fuzzy_undo = true;	// how many undo steps one command line makes is not this property's subject
			if (ok) { b.saved_text = mid; b.saved_pos = -1; b.saved_known = true; b.partial_own_write = false; }
			c.count("compound_edit_write_edit");
		} else if (k == "reload") {
			Text now = c.text();
			Text want = fs_text(b.path);
			c.compared();
			bool read_ok = msg.find("[r]") != std::string::npos && msg.find("read failed") == std::string::npos;
			if (K.fs.count(b.path) && !read_ok && !s.faults.empty()) {
				// the reload failed: whatever is in the buffer now, it counts as saved only if it equals the file
				c.count("reloads_failed");
				if (now != b.text) {
					// a read that broke off left part of the file in the buffer: that text is not "saved"
					// unless it happens to equal the file; where undo leads from here is not judged
					b.pushed_same_or_new(now);
					b.saved_text = want; b.saved_known = true; b.partial_own_write = false;
					b.saved_pos = -1;
					b.fuzzy_undo = true;
				}
				// (an open that failed changed nothing: the buffer is as dirty or clean as it was)
			} else if (K.fs.count(b.path)) {
				if (now != want) c.violate(V("reload/text-differs-from-file"), ctx + ": after :e! the buffer has " + std::to_string(now.size()) + " lines, the file " + std::to_string(want.size()));
				b.pushed_same_or_new(now);
				b.saved_text = now; b.saved_pos = b.pos; b.saved_known = true; b.partial_own_write = false;
			} else {
				b.saved_known = false;
				b.text = now;
			}
		} else if (k == "e") {
			std::string path = s.meta.str("path");
			int idx = T.find(path);
			leave(c, s, idx, path);
		} else if (k == "eforce") {
			std::string path = s.meta.str("path");
			leave(c, s, T.find(path), path, true);
		} else if (k == "ealt") {
			if (T.slots.size() < 2) {
				// no alternate: "pathname # is not set"; nothing changes
				check_current(c, ctx + " (no alternate)", false);
			} else leave(c, s, 1, T.slots[1].path);
		} else if (k == "b") {
			std::string how = s.meta.str("how");
			int idx = -1;
			if (how == "id") idx = T.find_id((int) s.meta.num("id"));
			else if (how == "+") idx = T.next_by_id(+1);
			else if (how == "-") idx = T.next_by_id(-1);
			else if (how == "#") idx = T.slots.size() > 1 ? 1 : -1;
			else if (how == "%") idx = 0;
			leave(c, s, idx, "");
		} else if (k == "bdel") {
			T.slots.erase(T.slots.begin());
			if (T.slots.empty()) T.open_new("", Text());
			check_current(c, ctx, true);
		} else if (k == "bnum") {
			int n = 0;
			for (auto &x : T.slots) x.id = ++n;
			T.next_id = n;
			check_current(c, ctx, false);
		} else if (k == "xa") {
			// still running: some buffer could not be written (an unnamed one, or a file changed by someone else)
			c.count("xa_refused");
		} else if (k == "q" || k == "wq") {
			// still running: the quit was refused (or, for wq/x, the write failed)
			bool clean = true;
			for (auto &x : T.slots) if (!x.saved_known || x.fuzzy_undo || !x.at_saved_pos()) clean = false;
			c.compared();
			if (k == "wq") {
				bool ok = msg.find("write failed") == std::string::npos;
				if (ok && (b.text.empty() || !b.differs())) {
					// :x on a clean buffer does not write; :wq of an empty buffer cannot write
				} else if (ok) { b.saved_text = b.text; b.saved_pos = b.pos; b.saved_known = true; b.partial_own_write = false; }
				clean = true;
				for (auto &x : T.slots) if (!x.saved_known || x.fuzzy_undo || !x.at_saved_pos()) clean = false;
				if (!ok) clean = false;
			}
			if (clean && msg.find("write failed") == std::string::npos && !(k == "wq" && b.text.empty()))
				c.violate(V("liveness/quit-refused-while-clean"), ctx + ": every buffer is at its saved state but the quit was refused: " + vis(msg, 60));
			c.count("quit_refused");
			// the editor makes a dirty buffer current
			std::string now = c.path();
			int idx = T.find(now);
			if (idx < 0) c.violate(V("switch/wrong-buffer"), ctx + ": after a refused quit the current buffer \"" + now + "\" is unknown to the model");
			if (msg.find("buffer modified") != std::string::npos) {
				MBuf &d = T.slots[(size_t) idx];
				if (d.saved_known && !d.differs() && d.at_saved_pos() && !d.fuzzy_undo)
					c.violate(V("quit/switched-to-clean-buffer"), ctx + ": quit was refused but the buffer made current (\"" + now + "\") is not a dirty one");
				T.front(idx);
			}
			check_current(c, ctx + " (refused quit)", idx != 0);
		} else if (k == "status") {
			status(c, ctx);
		}
	}

	void status(RunCtx &c, const std::string &ctx)
	{
		if (vi_mode) {
			// "path"* [=N]  L1 C1   on the message line
			std::string row = K.vt.rowtext(K.rows - 1);
			size_t q2 = row.find('"', 1);
			if (row.empty() || row[0] != '"' || q2 == std::string::npos || q2 + 1 >= row.size()) return;
			bool star = row[q2 + 1] == '*';
			MBuf &b = T.cur();
			c.compared();
			c.count("indicator_checked");
			if (!star && b.saved_known && b.differs())
				c.violate(V(b.partial_own_write ? "indicator/clean-after-partial-own-write" : "indicator/clean-while-text-differs"), ctx + ": ^G shows \"" + b.path + "\" without '*' but its text differs from its file");
			return;
		}
		std::string out = c.step_output();
		// " 1 % F0 * 2 # F1  " : id alias path flag, concatenated
		size_t i = 0;
		size_t slot = 0;
		while (i < out.size() && slot < T.slots.size()) {
			while (i < out.size() && out[i] == ' ') i++;
			size_t j = i;
			while (j < out.size() && isdigit((unsigned char) out[j])) j++;
			if (j == i || j + 3 >= out.size()) break;
			int id = atoi(out.substr(i, j - i).c_str());
			// out[j]=' ' alias=out[j+1] out[j+2]=' ' path...
			size_t ps = j + 3;
			size_t pe = out.find(' ', ps);
			if (pe == std::string::npos || pe + 1 >= out.size()) break;
			std::string path = out.substr(ps, pe - ps);
			char flag = out[pe + 1];
			MBuf &b = T.slots[slot];
			c.compared();
			c.count("indicator_checked");
			if (path != b.path || id != b.id)
				c.violate(V("list/wrong-entry"), ctx + ": :b lists slot " + std::to_string(slot) + " as id " + std::to_string(id) + " \"" + path + "\", the model has id " + std::to_string(b.id) + " \"" + b.path + "\"");
			if (flag != '*' && b.saved_known && b.differs())
				c.violate(V(b.partial_own_write ? "indicator/clean-after-partial-own-write" : "indicator/clean-while-text-differs"), ctx + ": :b shows \"" + b.path + "\" without '*' but its text differs from its file");
			i = pe + 2;
			slot++;
		}
	}

	void finish(RunCtx &c) override
	{
		bool ended = c.res.outcome == OUT_RETURNED || c.res.outcome == OUT_EXITED;
		if (!ended || c.cur < 0 || c.cur >= c.nsteps) return;
		const Step &s = c.plan.steps[(size_t) c.cur];
		std::string k = s.meta.str("k");
		std::string ctx = "step " + std::to_string(c.cur) + " " + vis(s.keys, 30);
		if (k == "q" || k == "wq") {
			c.compared();
			c.count("quit_allowed");
			for (size_t i = 0; i < T.slots.size(); i++) {
				MBuf &b = T.slots[i];
				if (k == "wq" && i == 0) {
					// the current buffer was written on the way out (faults on this write are C03's subject)
					bool ex;
					std::string got = c.file(b.path, &ex);
					if (b.saved_known && b.differs() && !b.text.empty() && (!ex || file_lines(got) != b.text))
						c.violate(V(b.partial_own_write ? "safety/wq-after-partial-own-write" : "safety/wq-exited-without-saving"), ctx + ": the editor exited but \"" + b.path + "\" does not hold the buffer text");
					continue;
				}
				if (b.saved_known && b.differs()) {
					std::string cls = b.partial_own_write ? "safety/quit-after-partial-own-write" : "safety/quit-discarded-changes";
					c.violate(V(cls), ctx + ": the editor exited although buffer \"" + b.path + "\" (" + std::to_string(b.text.size()) + " lines) differs from its file (" + std::to_string(b.saved_text.size()) + " lines as last read/written)");
				}
			}
		} else if (k == "xa") {
			// every modified buffer must have reached its file; a modified buffer without a name cannot have
			c.compared();
			c.count("xa_exited");
			if (getenv("NVSIM_DEBUG")) for (auto &b : T.slots) fprintf(stderr, "xa: slot %s known=%d differs=%d touched=%d text=%zu saved=%zu\n", b.path.c_str(), b.saved_known, b.differs(), b.file_changed_outside, b.text.size(), b.saved_text.size());
			for (auto &b : T.slots) {
				// a modified buffer whose file was rewritten by someone else in the meantime: :xa (no !) must refuse
				if (b.saved_known && b.differs() && b.file_changed_outside && !b.path.empty())
					c.violate(V("guard/xa-ignored-a-file-changed-outside"), ctx + ": the editor exited although \"" + b.path + "\" was rewritten by another process after it was read and the buffer has unsaved changes: :xa either overwrote the newer file or dropped the changes");
				if (!b.saved_known || !b.differs()) continue;
				bool ex = false;
				std::string got = b.path.empty() ? std::string() : c.file(b.path, &ex);
				if (b.path.empty() || !ex || file_lines(got) != b.text)
					c.violate(V("safety/xa-discarded-changes"), ctx + ": the editor exited although buffer \"" + b.path + "\" (" + std::to_string(b.text.size()) + " lines) differs from its file and :xa did not write it");
			}
		} else {
			c.violate(V("exit/unexpected"), ctx + ": the editor exited during a command that is not a quit");
		}
	}
};

CheckReg reg02(new BufCheck("C02"));
CheckReg reg20(new BufCheck("C20"));

} // namespace
