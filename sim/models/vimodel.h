// ViModel: reference semantics of vi cursor motions (C07) over code points and
// display columns, and of the core operators / puts / registers (C08).
// Written from the POSIX vi description; shares no code with neatvi.
// Alphabet: left-to-right text only (ASCII, tab, Latin-1, wide CJK, combining).
#pragma once
#include <map>
#include <string>
#include <vector>

namespace vim {

typedef std::vector<unsigned> U32;
typedef std::vector<U32> Buf;

static inline U32 dec(const std::string &s)
{
	U32 v; size_t i = 0;
	while (i < s.size()) {
		unsigned char c = (unsigned char) s[i];
		size_t n = c < 0x80 ? 1 : (c & 0xe0) == 0xc0 ? 2 : (c & 0xf0) == 0xe0 ? 3 : (c & 0xf8) == 0xf0 ? 4 : 1;
		if (i + n > s.size()) n = 1;
		unsigned cp = n == 1 ? c : n == 2 ? c & 0x1f : n == 3 ? c & 0x0f : c & 0x07;
		for (size_t k = 1; k < n; k++) cp = (cp << 6) | ((unsigned char) s[i + k] & 0x3f);
		v.push_back(cp); i += n;
	}
	return v;
}
static inline std::string enc(unsigned cp)
{
	std::string r;
	if (cp < 0x80) r += (char) cp;
	else if (cp < 0x800) { r += (char) (0xc0 | (cp >> 6)); r += (char) (0x80 | (cp & 0x3f)); }
	else if (cp < 0x10000) { r += (char) (0xe0 | (cp >> 12)); r += (char) (0x80 | ((cp >> 6) & 0x3f)); r += (char) (0x80 | (cp & 0x3f)); }
	else { r += (char) (0xf0 | (cp >> 18)); r += (char) (0x80 | ((cp >> 12) & 0x3f)); r += (char) (0x80 | ((cp >> 6) & 0x3f)); r += (char) (0x80 | (cp & 0x3f)); }
	return r;
}
static inline std::string encs(const U32 &v) { std::string s; for (unsigned c : v) s += enc(c); return s; }

static inline bool isblank_(unsigned c) { return c == ' ' || c == '\t'; }
// character classes for word motions: 0 blank, 1 word (letters, digits, _, everything non-ASCII), 2 punctuation
static inline int kind(unsigned c) { if (c == ' ' || c == '\t' || c == '\n' || c == '\r' || c == '\f' || c == '\v') return 0; if ((c >= '0' && c <= '9') || (c >= 'a' && c <= 'z') || (c >= 'A' && c <= 'Z') || c == '_' || c > 0x7f) return 1; return 2; }
static inline int width(unsigned c, int col) { if (c == '\t') return 8 - (col & 7); if ((c >= 0x1100 && c <= 0x115f) || (c >= 0x2e80 && c <= 0xa4cf) || (c >= 0xac00 && c <= 0xd7a3) || (c >= 0xf900 && c <= 0xfaff) || (c >= 0xff00 && c <= 0xff60)) return 2; return 1; }

struct Pos { int row = 0, off = 0; };

struct Model {
	Buf b;
	Pos c;
	int xcol = 0;			// the column j/k aim for
	unsigned fch = 0; int fcmd = 0;	// last f/F/t/T
	int top = 0, rows = 23;		// window (input from the probe for H M L)
	bool opmode = false;		// the motion is the target of an operator: w may end after the last character

	int n() const { return (int) b.size(); }
	int len(int r) const { return r >= 0 && r < n() ? (int) b[(size_t) r].size() : 0; }
	int lastoff(int r) const { int l = len(r); return l ? l - 1 : 0; }
	int col_of(int r, int off) const { int col = 0; for (int i = 0; i < off && i < len(r); i++) col += width(b[(size_t) r][(size_t) i], col); return col; }
	// the character that covers display column `col` (the last one starting at or before it); clamped to the line
	int off_of(int r, int col) const
	{
		int cpos = 0, o = 0;
		for (int i = 0; i < len(r); i++) { if (cpos <= col) o = i; else break; cpos += width(b[(size_t) r][(size_t) i], cpos); }
		return o;
	}
	int first_nonblank(int r) const { int i = 0; while (i < len(r) && isblank_(b[(size_t) r][(size_t) i])) i++; return i < len(r) ? i : lastoff(r); }
	void set(int r, int o, bool keepcol = false) { int lim = opmode ? len(r) : lastoff(r); c.row = r; c.off = o > lim ? lim : o < 0 ? 0 : o; if (!keepcol) xcol = col_of(c.row, c.off); }

	// ---- the flat character stream used by word motions: every line is followed by a newline
	unsigned at(int r, int o) const { return o < len(r) ? b[(size_t) r][(size_t) o] : '\n'; }
	bool next(int &r, int &o) const { if (o < len(r)) { o++; return true; } if (r + 1 < n()) { r++; o = 0; return true; } return false; }	// o == len(r) is the newline
	bool prev(int &r, int &o) const { if (o > 0) { o--; return true; } if (r > 0) { r--; o = len(r); return true; } return false; }

	// returns false when the motion fails (cursor must stay)
	bool motion(const std::string &m, int cnt, bool has_cnt)
	{
		if (n() == 0) return false;
		int r = c.row, o = c.off;
		// (h at the first / l at the last character: POSIX calls it a failure; the cursor stays either way,
		// and like any horizontal motion it resets the column j/k aim for)
		if (m == "h") { set(r, o - cnt < 0 ? 0 : o - cnt); return true; }
		if (m == "l") { set(r, o + cnt > lastoff(r) ? lastoff(r) : o + cnt); return true; }
		if (m == "0") { set(r, 0); return true; }
		if (m == "^") { set(r, first_nonblank(r)); return true; }
		if (m == "$") { set(r, lastoff(r)); return true; }	// ($ then j/k: POSIX sticks to the line ends, neatvi to the column - excluded corner, the column is used)
		if (m == "|") { set(r, off_of(r, cnt - 1), true); xcol = cnt - 1; return true; }
		if (m == "j" || m == "k") {
			int nr = r + (m == "j" ? cnt : -cnt);
			if (nr < 0 || nr >= n()) return false;
			c.row = nr; c.off = off_of(nr, xcol);
			if (c.off > lastoff(nr)) c.off = lastoff(nr);
			return true;
		}
		if (m == "G") { int nr = has_cnt ? cnt - 1 : n() - 1; if (nr < 0 || nr >= n()) return false; set(nr, first_nonblank(nr)); return true; }
		if (m == "+" || m == "\n") { if (r + cnt >= n()) return false; set(r + cnt, first_nonblank(r + cnt)); return true; }
		if (m == "-") { if (r - cnt < 0) return false; set(r - cnt, first_nonblank(r - cnt)); return true; }
		if (m == "_") { if (r + cnt - 1 >= n()) return false; set(r + cnt - 1, first_nonblank(r + cnt - 1)); return true; }
		if (m == "H") { int nr = top + cnt - 1; if (nr >= n()) nr = n() - 1; set(nr, first_nonblank(nr)); return true; }
		if (m == "L") { int nr = top + rows - cnt; if (nr >= n()) nr = n() - 1; if (nr < 0) nr = 0; set(nr, first_nonblank(nr)); return true; }
		if (m == "M") { int nr = top + rows / 2; if (nr >= n()) nr = n() - 1; set(nr, first_nonblank(nr)); return true; }
		if (m[0] == 'f' || m[0] == 'F' || m[0] == 't' || m[0] == 'T' || m == ";" || m == ",") {
			int cmd; unsigned ch; int k = cnt;
			if (m == ";" || m == ",") { if (!fcmd) return false; cmd = fcmd; ch = fch; }
			else { cmd = m[0]; U32 u = dec(m.substr(1)); if (u.empty()) return false; ch = u[0]; fcmd = cmd; fch = ch; }
			int dir = (cmd == 'f' || cmd == 't') ? 1 : -1;
			if (m == ",") dir = -dir;
			int p = o;
			while (k > 0) { p += dir; if (p < 0 || p >= len(r)) return false; if (b[(size_t) r][(size_t) p] == ch) k--; }
			if (cmd == 't' || cmd == 'T') p -= dir;
			set(r, p);
			return true;
		}
		if (m == "w" || m == "W") {
			bool big = m == "W";
			for (int i = 0; i < cnt; i++) {
				int cr = r, co = o;
				bool moved = true;
				int k0 = kind(at(cr, co));
				// leave the word the cursor is in (one class of characters; for W any non-blank run)
				if (k0 != 0)
					while (moved && at(cr, co) != '\n' && (big ? kind(at(cr, co)) != 0 : kind(at(cr, co)) == k0)) moved = next(cr, co);
				// skip blanks and line ends; an empty line (other than the one we started on) is a word
				while (moved && kind(at(cr, co)) == 0) {
					if (at(cr, co) == '\n' && len(cr) == 0 && cr != r) break;
					moved = next(cr, co);
				}
				if (!moved) {	// the end of the buffer: the last character, or failure when already there
					if (opmode) { r = n() - 1; o = len(r); break; }	// as an operator's target: the end of the last line
					if (r == n() - 1 && o >= lastoff(r)) { if (i == 0) return false; break; }
					r = n() - 1; o = lastoff(r);
					break;
				}
				r = cr; o = co;
			}
			set(r, o);
			return true;
		}
		if (m == "b" || m == "B") {
			bool big = m == "B";
			for (int i = 0; i < cnt; i++) {
				int cr = r, co = o;
				if (!prev(cr, co)) { if (i == 0) return false; break; }
				// skip blanks (an empty line stops the motion)
				bool stop = false;
				while (kind(at(cr, co)) == 0) {
					if (at(cr, co) == '\n' && len(cr) == 0) { stop = true; break; }
					if (!prev(cr, co)) { stop = true; break; }
				}
				if (!stop) {
					int k0 = kind(at(cr, co));
					for (;;) {
						int pr = cr, po = co;
						if (!prev(pr, po)) break;
						unsigned pc = at(pr, po);
						if (pc == '\n' || (big ? kind(pc) == 0 : kind(pc) != k0)) break;
						cr = pr; co = po;
					}
				} else if (kind(at(cr, co)) == 0 && !(at(cr, co) == '\n' && len(cr) == 0)) { cr = 0; co = 0; }
				r = cr; o = co > lastoff(cr) ? lastoff(cr) : co;
				if (len(r) == 0) o = 0;
			}
			set(r, o);
			return true;
		}
		if (m == "e" || m == "E") {
			bool big = m == "E";
			for (int i = 0; i < cnt; i++) {
				int cr = r, co = o;
				if (!next(cr, co)) { if (i == 0) return false; break; }
				bool stop = false;
				while (kind(at(cr, co)) == 0) {
					if (at(cr, co) == '\n' && len(cr) == 0 && !(cr == r)) { stop = true; break; }
					if (!next(cr, co)) { stop = true; break; }
				}
				if (!stop) {
					int k0 = kind(at(cr, co));
					for (;;) {
						int nr = cr, no = co;
						if (!next(nr, no)) break;
						unsigned nc = at(nr, no);
						if (nc == '\n' || (big ? kind(nc) == 0 : kind(nc) != k0)) break;
						cr = nr; co = no;
					}
				} else if (!(at(cr, co) == '\n' && len(cr) == 0)) { cr = n() - 1; co = lastoff(cr); }
				r = cr; o = co > lastoff(cr) ? lastoff(cr) : co;
			}
			set(r, o);
			return true;
		}
		if (m == "%") {
			static const char *pairs = "()[]{}";
			int p = o;
			while (p < len(r) && !(b[(size_t) r][(size_t) p] < 128 && strchr(pairs, (int) b[(size_t) r][(size_t) p]))) p++;
			if (p >= len(r)) return false;
			unsigned ch = b[(size_t) r][(size_t) p];
			int idx = (int) (strchr(pairs, (int) ch) - pairs);
			unsigned mate = (unsigned) pairs[idx ^ 1];
			int dir = (idx & 1) ? -1 : 1, dep = 1;
			int cr = r, co = p;
			for (;;) {
				if (dir > 0) { if (!next(cr, co)) return false; } else { if (!prev(cr, co)) return false; }
				unsigned x = at(cr, co);
				if (x == mate) dep--; else if (x == ch) dep++;
				if (!dep) { set(cr, co); return true; }
			}
		}
		if (m == "{" || m == "}") {
			int dir = m == "}" ? 1 : -1;
			for (int i = 0; i < cnt; i++) {
				int cr = r;
				while (cr >= 0 && cr < n() && len(cr) == 0) cr += dir;
				while (cr >= 0 && cr < n() && len(cr) != 0) cr += dir;
				if (cr < 0) cr = 0;
				if (cr >= n()) cr = n() - 1;
				r = cr;
			}
			set(r, 0);
			return true;
		}
		return false;
	}
};

} // namespace vim
