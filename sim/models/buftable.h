// BufTableModel + UndoModel: the reference for C02 and C20.  It contains no
// editing semantics: the text a modifying command produces is taken from the
// probe (what commands do to text is C06/C08's subject); what is modelled is
// which buffer is current, what each buffer's text / line / undo history /
// saved state must be, and when leaving or quitting must be refused.
#pragma once
#include <map>
#include <string>
#include <vector>

typedef std::vector<std::string> Text;

struct MBuf {
	std::string path;
	int id = 0;
	Text text;
	std::vector<Text> snaps;	// undo history: snaps[pos] is the current text
	int pos = 0;
	int saved_pos = 0;		// history position that equals the file (-1: none)
	Text saved_text;		// what the file held when last read / wholly written
	bool saved_known = true;	// false after a failed reload: dirty assertions suspended
	bool fuzzy_undo = false;	// a step with no net text change happened: undo depth ambiguous
	int row = 0, off = 0;
	bool partial_own_write = false;	// a partial range was written to the buffer's own path since it became dirty
	bool file_changed_outside = false;	// another process rewrote the file after the editor last read / wrote it

	bool differs() const { return text != saved_text; }
	bool at_saved_pos() const { return pos == saved_pos; }
	void reset_history() { snaps.assign(1, text); pos = 0; saved_pos = 0; fuzzy_undo = false; }
	void edited(const Text &now) {
		if (now == text) { fuzzy_undo = true; return; }
		if (saved_pos > pos) saved_pos = -1;	// the saved state was on the redo branch that is now discarded
		snaps.resize((size_t) pos + 1);
		snaps.push_back(now);
		pos++;
		text = now;
	}
	void pushed_same_or_new(const Text &now) {	// a command known to create a step even without net change
		if (saved_pos > pos) saved_pos = -1;
		snaps.resize((size_t) pos + 1);
		snaps.push_back(now);
		pos++;
		text = now;
	}
};

struct BufTable {
	std::vector<MBuf> slots;	// most recently used first; slots[0] is current
	int next_id = 0;

	MBuf &cur() { return slots[0]; }
	int find(const std::string &path) {
		for (size_t i = 0; i < slots.size(); i++)
			if (slots[i].path == path) return (int) i;
		return -1;
	}
	int find_id(int id) {
		for (size_t i = 0; i < slots.size(); i++)
			if (slots[i].id == id) return (int) i;
		return -1;
	}
	void front(int idx) {
		MBuf b = slots[(size_t) idx];
		slots.erase(slots.begin() + idx);
		slots.insert(slots.begin(), b);
	}
	void open_new(const std::string &path, const Text &t) {
		MBuf b;
		b.path = path; b.id = ++next_id; b.text = t; b.saved_text = t;
		b.reset_history();
		slots.insert(slots.begin(), b);
	}
	int next_by_id(int dir) {	// :b + / :b -
		int best = -1;
		for (size_t i = 0; i < slots.size(); i++) {
			if (dir > 0 && slots[i].id > slots[0].id && (best < 0 || slots[i].id < slots[(size_t) best].id)) best = (int) i;
			if (dir < 0 && slots[i].id < slots[0].id && (best < 0 || slots[i].id > slots[(size_t) best].id)) best = (int) i;
		}
		return best;
	}
	bool any_differs() { for (auto &b : slots) if (b.saved_known && b.differs()) return true; return false; }
	bool all_at_saved() { for (auto &b : slots) if (!b.at_saved_pos() || b.fuzzy_undo) return false; return true; }
};
