// ExModel: the reference line editor for C06 / C14 / C15.  Written from the
// POSIX ex description of the listed commands plus the conventions the
// property statement fixes (address 0 only for text-adding commands, rejection
// leaves the buffer unchanged, marks follow their lines, no search wrap).
// It shares no code with neatvi; patterns go through RefRegex.
#pragma once
#include <map>
#include <string>
#include <vector>
#include "refregex.h"
#include "../util.h"

std::string catalogue_output(const std::string &cmd, const std::string &in);

struct ExLine { std::string text; long id; };

struct ExResult {
	bool rejected = false;		// the command was refused; nothing changed
	bool soft = false;		// ... only because it addressed line 0 (neatvi: a silent no-op that does not end a global)
	std::string why;
	std::string out;		// what p and = print
	bool row_defined = true;	// the reference semantics define the resulting current line
	bool out_defined = true;	// the output is pinned down (not for commands that print informational messages)
};

struct ExModel {
	std::vector<ExLine> ln;
	long next_id = 1;
	int cur = 0;				// current line, 1-based; 0 = "before the first line"
	std::map<int, long> marks;		// mark letter -> line id
	struct Reg { std::string text; bool lnmode; };
	std::map<int, Reg> regs;
	std::string last_pat;			// last search / substitute / global pattern
	std::string last_rep;
	bool have_rep = false;
	bool icase = true;			// neatvi's default for the ic option
	std::map<std::string, std::string> *files = nullptr;	// path -> content (the simulated file system at the time of the command)
	std::vector<std::string> *input = nullptr;		// text lines following the command
	size_t in_pos = 0;
	int gdepth = 0;
	std::vector<long> visited;		// ids visited by the outermost global (for the evidence)

	void load(const std::string &data) { ln.clear(); for (auto &l : split_lines(data)) ln.push_back({l, next_id++}); cur = ln.empty() ? 0 : 1; }
	std::vector<std::string> text() const { std::vector<std::string> v; for (auto &l : ln) v.push_back(l.text); return v; }
	int n() const { return (int) ln.size(); }
	int find_id(long id) const { for (size_t i = 0; i < ln.size(); i++) if (ln[i].id == id) return (int) i + 1; return 0; }

	// ---- registers (vi/ex register conventions: linewise text shifts the numbered registers)
	void reg_put(int c, const std::string &s, bool lnmode)
	{
		if ((lnmode || s.find('\n') != std::string::npos) && (c == 0 || isalpha(c))) {
			for (int i = 8; i >= 1; i--) { auto it = regs.find('0' + i); if (it != regs.end()) regs['0' + i + 1] = it->second; }
			regs['1'] = {s, lnmode};
		}
		if (isupper(c)) { Reg &r = regs[tolower(c)]; r.text += s; r.lnmode = lnmode; }
		else regs[c] = {s, lnmode};
	}

	// ---- patterns
	bool line_matches(const std::string &pat, const std::string &line)
	{
		refre::Matcher m(pat, icase);
		if (!m.valid) return false;
		refre::U32 s = refre::decode(line);
		return m.search(s, 0).found;
	}

	// ---- addresses
	struct P { const std::string &s; size_t i; };
	static std::string read_delim(P &p, char d)
	{
		// text up to the unescaped delimiter; "\<delim>" stands for the delimiter itself
		std::string o;
		while (p.i < p.s.size() && p.s[p.i] != d) {
			if (p.s[p.i] == '\\' && p.i + 1 < p.s.size()) {
				if (p.s[p.i + 1] != d) o += '\\';
				o += p.s[p.i + 1];
				p.i += 2;
			} else o += p.s[p.i++];
		}
		if (p.i < p.s.size()) p.i++;
		return o;
	}
	// returns false when the address cannot be resolved
	bool one_addr(P &p, int &val, bool &given)
	{
		given = false;
		int v = cur;
		if (p.i >= p.s.size()) { val = v; return true; }
		char c = p.s[p.i];
		if (isdigit((unsigned char) c)) { v = 0; while (p.i < p.s.size() && isdigit((unsigned char) p.s[p.i])) v = v * 10 + (p.s[p.i++] - '0'); given = true; }
		else if (c == '.') { p.i++; given = true; }
		else if (c == '$') { p.i++; v = n(); given = true; }
		else if (c == '\'') {
			p.i++;
			if (p.i >= p.s.size()) return false;
			int mk = (unsigned char) p.s[p.i++];
			auto it = marks.find(mk);
			if (it == marks.end()) return false;
			v = find_id(it->second);
			if (!v) return false;
			given = true;
		} else if (c == '/' || c == '?') {
			p.i++;
			std::string pat = read_delim(p, c);
			if (!pat.empty()) last_pat = pat;
			if (last_pat.empty()) return false;
			int dir = c == '/' ? 1 : -1, r = cur + dir;
			bool found = false;
			while (r >= 1 && r <= n()) { if (line_matches(last_pat, ln[(size_t) r - 1].text)) { found = true; break; } r += dir; }
			if (!found) return false;
			v = r;
			given = true;
		}
		while (p.i < p.s.size() && (p.s[p.i] == '+' || p.s[p.i] == '-')) {
			int sign = p.s[p.i++] == '+' ? 1 : -1, k = 0; bool dig = false;
			while (p.i < p.s.size() && isdigit((unsigned char) p.s[p.i])) { k = k * 10 + (p.s[p.i++] - '0'); dig = true; }
			v += sign * (dig ? k : 1);
			given = true;
		}
		val = v;
		return true;
	}
	// parses the address list; a = first, b = last address; naddr = how many were given
	bool addresses(P &p, int &a, int &b, int &naddr)
	{
		naddr = 0;
		int save_cur = cur;
		bool ok = true;
		if (p.i < p.s.size() && p.s[p.i] == '%') { p.i++; a = 1; b = n(); naddr = 2; return true; }
		int v; bool given;
		if (!one_addr(p, v, given)) ok = false;
		if (given) { a = b = v; naddr = 1; }
		while (ok && p.i < p.s.size() && (p.s[p.i] == ',' || p.s[p.i] == ';')) {
			char sep = p.s[p.i++];
			if (sep == ';') { if (v < 0 || v > n()) { ok = false; break; } cur = v; }
			int w; bool g2;
			if (!one_addr(p, w, g2)) { ok = false; break; }
			a = naddr ? b : cur; b = w; v = w;
			naddr = 2;
		}
		if (!ok) {
			cur = save_cur;
			// the rest of the address list still belongs to the addresses, not to the command name
			while (p.i < p.s.size() && strchr(".$0123456789'/?+-,;%", p.s[p.i])) {
				char c = p.s[p.i++];
				if (c == '\'' && p.i < p.s.size()) p.i++;
				else if (c == '/' || c == '?') read_delim(p, c);
			}
		}
		return ok;
	}

	// ---- text input for a/i/c/rs
	bool starved = false;	// a text block was needed but the input ended before its "."
	bool pending_soft = false, murky = false;	// see exec()
	bool skip_hazard = false;	// see the global loop in exec()
	bool overflow = false;	// a global made the buffer grow beyond what the (linear-time) model is meant for
	std::vector<std::string> read_block()
	{
		std::vector<std::string> t;
		bool closed = false;
		while (input && in_pos < input->size()) {
			std::string l = (*input)[in_pos++];
			if (l == ".") { closed = true; break; }
			t.push_back(l);
		}
		if (!closed) starved = true;
		return t;
	}

	void replace_lines(int from, int to_excl, const std::vector<std::string> &ins)
	{
		// lines [from, to_excl) (0-based) are replaced; marks on deleted lines vanish with their ids
		std::vector<ExLine> nl;
		for (auto &s : ins) nl.push_back({s, next_id++});
		ln.erase(ln.begin() + from, ln.begin() + to_excl);
		ln.insert(ln.begin() + from, nl.begin(), nl.end());
	}

	static int reg_name(const std::string &arg, size_t &i)
	{
		while (i < arg.size() && arg[i] == ' ') i++;
		if (i >= arg.size()) return 0;
		int c = (unsigned char) arg[i++];
		if (c == '\\' && i < arg.size()) c = 0x80 | (unsigned char) arg[i++];
		return c;
	}

	// expand the replacement for one match
	static std::string expand(const std::string &rep, const refre::U32 &line, const refre::Match &m)
	{
		std::string o;
		auto enc = [](unsigned cp) { std::string r; if (cp < 0x80) r += (char) cp; else if (cp < 0x800) { r += (char) (0xc0 | (cp >> 6)); r += (char) (0x80 | (cp & 0x3f)); } else if (cp < 0x10000) { r += (char) (0xe0 | (cp >> 12)); r += (char) (0x80 | ((cp >> 6) & 0x3f)); r += (char) (0x80 | (cp & 0x3f)); } else { r += (char) (0xf0 | (cp >> 18)); r += (char) (0x80 | ((cp >> 12) & 0x3f)); r += (char) (0x80 | ((cp >> 6) & 0x3f)); r += (char) (0x80 | (cp & 0x3f)); } return r; };
		for (size_t i = 0; i < rep.size(); i++) {
			if (rep[i] == '\\' && i + 1 < rep.size()) {
				char d = rep[++i];
				if (d >= '0' && d <= '9') {
					size_t g = (size_t) (d - '0');
					if (g < m.grp.size() && m.grp[g].first >= 0)
						for (int k = m.grp[g].first; k < m.grp[g].second; k++) o += enc(line[(size_t) k]);
				} else o += d;
			} else o += rep[i];
		}
		return o;
	}

	// the reference substitute of one line; returns true if something was replaced.
	// eol_empty_ambiguous: set when the only open question is an empty match at the very end of the line
	bool substitute_line(const std::string &pat, const std::string &rep, bool global, const std::string &line, std::string &out, std::string *alt_out)
	{
		refre::Matcher m(pat, icase);
		refre::U32 s = refre::decode(line);
		auto enc1 = [](unsigned cp) { std::string r; if (cp < 0x80) r += (char) cp; else if (cp < 0x800) { r += (char) (0xc0 | (cp >> 6)); r += (char) (0x80 | (cp & 0x3f)); } else if (cp < 0x10000) { r += (char) (0xe0 | (cp >> 12)); r += (char) (0x80 | ((cp >> 6) & 0x3f)); r += (char) (0x80 | (cp & 0x3f)); } else { r += (char) (0xf0 | (cp >> 18)); r += (char) (0x80 | ((cp >> 12) & 0x3f)); r += (char) (0x80 | ((cp >> 6) & 0x3f)); r += (char) (0x80 | (cp & 0x3f)); } return r; };
		out.clear();
		if (alt_out) alt_out->clear();
		int pos = 0, len = (int) s.size();
		bool any = false;
		bool have_alt = false;
		while (pos <= len) {
			refre::Match mt = m.search(s, pos);
			if (!mt.found) break;
			bool empty_at_eol = mt.so == mt.eo && mt.so == len && any;
			if (empty_at_eol) {
				// an empty match at the very end of the line after earlier replacements: the statement does not say
				if (alt_out) { *alt_out = out; for (int k = pos; k < len; k++) *alt_out += enc1(s[(size_t) k]); have_alt = true; }
			}
			for (int k = pos; k < mt.so; k++) out += enc1(s[(size_t) k]);
			out += expand(rep, s, mt);
			any = true;
			if (mt.eo == mt.so) {	// empty match: keep the character after it and move on
				if (mt.so < len) out += enc1(s[(size_t) mt.so]);
				pos = mt.so + 1;
			} else pos = mt.eo;
			if (!global) break;
		}
		for (int k = pos; k < len; k++) out += enc1(s[(size_t) k]);
		if (alt_out && !have_alt) alt_out->clear();
		return any;
	}

	// splits a global's command list at the | separators the way the editor's argument reader does:
	// g, v and ! take the rest of the line, s keeps its two delimited parts (backslash escapes), every
	// other command ends at the first |
	static std::vector<std::string> split_bar(const std::string &s)
	{
		std::vector<std::string> parts;
		size_t i = 0;
		while (i <= s.size()) {
			size_t st = i;
			while (i < s.size() && (strchr("0123456789.,;$+-% \t", s[i]) != nullptr)) i++;
			if (i < s.size() && (s[i] == '/' || s[i] == '?' || s[i] == '\'')) { parts.push_back(s.substr(st)); break; }	// search / mark addresses: not split
			std::string cmd;
			if (i < s.size() && s[i] == '!') cmd = s[i++];
			else while (i < s.size() && isalpha((unsigned char) s[i])) cmd += s[i++];
			if (cmd == "g" || cmd == "v" || cmd == "!" || cmd == "r" || cmd == "w" || cmd == "a" || cmd == "i" || cmd == "c") { parts.push_back(s.substr(st)); break; }
			while (i < s.size() && (s[i] == ' ' || s[i] == '\t')) i++;
			if (cmd == "s" && i < s.size() && s[i] != '|' && s[i] != '\\' && s[i] != '"') {
				char d = s[i++];
				int cnt = 2;
				while (i < s.size() && cnt > 0) {
					if (s[i] == d) cnt--;
					if (s[i] == '\\' && i + 1 < s.size()) i++;
					i++;
				}
			}
			while (i < s.size() && s[i] != '|') { if (s[i] == '\\' && i + 1 < s.size()) i++; i++; }
			parts.push_back(s.substr(st, i - st));
			if (i >= s.size()) break;
			i++;	// the |
			if (i >= s.size()) break;
		}
		if (parts.empty()) parts.push_back(s);
		return parts;
	}

	// ---- one command line (without the trailing newline); text blocks come from `input`
	ExResult exec(const std::string &line)
	{
		ExResult R;
		// a command that follows a softly rejected one inside the same step (register body, | list) runs on a
		// current line the reference does not define
		if (pending_soft) murky = true;
		P p{line, 0};
		while (p.i < line.size() && (line[p.i] == ':' || line[p.i] == ' ')) p.i++;
		int a = cur, b = cur, naddr = 0;
		int cur0 = cur;
		bool addr_ok = addresses(p, a, b, naddr);
		while (p.i < line.size() && line[p.i] == ' ') p.i++;
		// command name
		std::string cmd;
		if (p.i < line.size() && (line[p.i] == '!' || line[p.i] == '=' || line[p.i] == '@')) cmd = line[p.i++];
		else { while (p.i < line.size() && isalpha((unsigned char) line[p.i])) { cmd += line[p.i++]; if (cmd == "k") break; } }
		if (cmd == "g" && p.i < line.size() && line[p.i] == '!') { cmd = "v"; p.i++; }
		std::string arg = line.substr(p.i);
		{ size_t k = 0; while (k < arg.size() && (arg[k] == ' ' || arg[k] == '\t')) k++; if (cmd != "s" && cmd != "g" && cmd != "v") arg = arg.substr(k); }
		bool has_text = cmd == "a" || cmd == "i" || cmd == "c" || cmd == "rs";
		std::vector<std::string> block;
		if (has_text) block = read_block();	// the text is consumed whether or not the command is accepted
		auto reject = [&](const std::string &why) { R.rejected = true; R.why = why; cur = cur0; return R; };
		if (!addr_ok) return reject("address does not resolve");
		if (naddr == 0) { a = b = cur; }
		bool adds = cmd == "a" || cmd == "pu" || cmd == "r";	// commands for which address 0 means "before the first line"
		int lo = adds || cmd == "=" ? 0 : 1;	// POSIX: = accepts address 0 as well
		if (cmd == "i") lo = 0;	// 0i, or i with current line 0: accepted like 0a (whether POSIX's "insert" counts among "the commands that add text" for address 0 is an excluded corner; not generated on purpose)
		if (cmd == "=" || cmd == "k" || cmd == "p" || cmd == "d" || cmd == "y" || cmd == "c" || cmd == "s" || cmd == "!" || cmd == "a" || cmd == "i" || cmd == "pu" || cmd == "r" || cmd == "g" || cmd == "v" || cmd == "@" || cmd == "ra") {
			if (cmd == "g" || cmd == "v") { if (naddr == 0) { if (gdepth == 0) { a = 1; b = n(); } } }
			// text-adding commands on an empty buffer: no line exists, the text simply becomes the buffer
			// (an explicit % or no address; an explicit line number still has to exist)
			bool empty_ok = n() == 0 && ((adds || cmd == "i" || cmd == "c" || cmd == "!") && ((a == 0 && b == 0) || (a == 1 && b == 0)));
			if (empty_ok && (cmd == "c" || cmd == "!")) { a = 1; b = 0; }
			if (n() == 0 && cmd == "s" && naddr == 0) { empty_ok = true; a = 1; b = 0; }	// nothing to substitute in; the pattern is still remembered
			bool no_range_needed = (cmd == "@" || cmd == "ra") && naddr == 0;	// executing a register needs no line
			if (!empty_ok && !no_range_needed && !((cmd == "g" || cmd == "v") && n() == 0 && (naddr == 0 || (a == 1 && b == 0)))) {
				if (a < lo || b < lo || a > b || b > n()) {
					bool zero_only = a >= 0 && b >= 0 && a <= b && b <= n() && (a == 0 || b == 0) && a == b;
					ExResult rr = reject("address out of range");
					rr.soft = zero_only && (cmd == "p" || cmd == "s");	// neatvi: these do nothing on line 0 and report success
					if (rr.soft) pending_soft = true;
					return rr;
				}
			}
		}
		if (cmd == "a" || cmd == "i") {
			int at = cmd == "a" ? b : (b > 0 ? b - 1 : 0);	// insert after line `at`
			replace_lines(at, at, block);
			cur = block.empty() ? at : at + (int) block.size();
			if (cmd == "a" && block.empty()) cur = b;
			return R;
		}
		if (cmd == "c") {
			replace_lines(a - 1, b, block);
			cur = block.empty() ? a - 1 : a - 1 + (int) block.size();
			return R;
		}
		if (cmd == "d" || cmd == "y") {
			size_t k = 0;
			int rg = reg_name(arg, k);
			std::string t;
			for (int i = a; i <= b; i++) t += ln[(size_t) i - 1].text + "\n";
			if (n() == 0) return reject("empty buffer");
			reg_put(rg, t, true);
			if (cmd == "d") {
				replace_lines(a - 1, b, {});
				cur = a <= n() ? a : n();
			}
			return R;
		}
		if (cmd == "pu") {
			size_t k = 0;
			int rg = reg_name(arg, k);
			auto it = regs.find(rg);
			if (it == regs.end()) return reject("register not set");
			std::vector<std::string> t = split_lines(it->second.text);
			replace_lines(b, b, t);
			cur = b + (int) t.size();
			if (t.empty()) cur = b;
			return R;
		}
		if (cmd == "r") {
			std::string data;
			R.out_defined = false;	// prints an informational message
			if (!arg.empty() && arg[0] == '!') {
				if (arg.size() < 2) return reject("no command");
				data = catalogue_output(arg.substr(1), "");
			} else {
				if (!files || !files->count(arg)) return reject("cannot read file");
				data = (*files)[arg];
			}
			std::vector<std::string> t = split_lines(data);
			int at = n() ? b : 0;
			replace_lines(at, at, t);
			cur = at + (int) t.size();
			if (t.empty()) { cur = at; R.row_defined = false; }
			return R;
		}
		if (cmd == "p") {
			for (int i = a; i <= b; i++) R.out += ln[(size_t) i - 1].text + "\n";
			cur = b;
			return R;
		}
		if (cmd == "=") { R.out = std::to_string(b) + "\n"; cur = cur0; return R; }
		if (cmd == "k") {
			if (arg.empty()) return reject("no mark name");
			marks[(unsigned char) arg[0]] = ln[(size_t) b - 1].id;
			cur = cur0;
			return R;
		}
		if (cmd == "!") {
			if (naddr == 0) return reject("not modelled");
			std::string t;
			for (int i = a; i <= b; i++) t += ln[(size_t) i - 1].text + "\n";
			std::vector<std::string> o = split_lines(catalogue_output(arg, t));
			replace_lines(a - 1, b, o);
			cur = cur0;
			R.row_defined = false;	// POSIX: last line of the output; neatvi leaves it (excluded corner)
			return R;
		}
		if (cmd == "rs") {
			size_t k = 0;
			int rg = reg_name(arg, k);
			std::string t;
			for (auto &l : block) t += l + "\n";
			reg_put(rg, t, true);
			cur = cur0;
			return R;
		}
		if (cmd == "@" || cmd == "ra") {
			size_t k = 0;
			int rg = reg_name(arg, k);
			auto it = regs.find(rg);
			if (it == regs.end()) return reject("register not set");
			if (naddr) cur = a;
			std::string body = it->second.text;
			std::vector<std::string> cmds = split_lines(body);
			ExResult last;
			for (auto &c : cmds) {
				ExResult r1 = exec(c);
				R.out += r1.out;
				if (!r1.row_defined || r1.rejected) R.row_defined = false;
				if (!r1.out_defined) R.out_defined = false;
				last = r1;
			}
			return R;
		}
		if (cmd == "s") {
			// s/pat/rep/[g]   s//rep/   s/pat   s
			std::string pat, rep; bool global = false; bool have_pat = false;
			if (!arg.empty()) {
				char d = arg[0];
				P q{arg, 1};
				size_t before = q.i;
				pat = read_delim(q, d);
				have_pat = true;
				(void) before;
				// a replacement is present only when something follows the pattern's closing delimiter
				if (q.i < arg.size()) {
					rep = read_delim(q, d);
					last_rep = rep;
					std::string flags = q.i <= arg.size() ? arg.substr(q.i) : "";
					global = flags.find('g') != std::string::npos;
				} else last_rep = "";
				have_rep = true;
			}
			if (have_pat && !pat.empty()) last_pat = pat;
			if (last_pat.empty()) return reject("no previous pattern");
			refre::Matcher chk(last_pat, icase);
			if (!chk.valid) return reject("bad pattern");
			rep = last_rep;
			for (int i = a; i <= b; i++) {
				std::string o, alt;
				if (substitute_line(last_pat, rep, global, ln[(size_t) i - 1].text, o, &alt)) {
					ln[(size_t) i - 1].text = o;
					if (!alt.empty() && alt != o) alts[ln[(size_t) i - 1].id] = alt;
				}
			}
			cur = cur0;
			R.row_defined = false;
			return R;
		}
		if (cmd == "g" || cmd == "v") {
			if (arg.empty()) return reject("no pattern");
			char d = arg[0];
			P q{arg, 1};
			std::string pat = read_delim(q, d);
			std::string sub = arg.substr(q.i <= arg.size() ? q.i : arg.size());
			if (!pat.empty()) last_pat = pat;
			if (last_pat.empty()) return reject("no previous pattern");
			refre::Matcher chk(last_pat, icase);
			if (!chk.valid) return reject("bad pattern");
			std::string gp = last_pat;
			bool inv = cmd == "v";
			// the lines of the original range, by identity
			std::vector<long> ids;
			if (n() > 0) for (int i = a; i <= b; i++) ids.push_back(ln[(size_t) i - 1].id);
			gdepth++;
			size_t idx = 0;
			for (long id : ids) {
				idx++;
				if (n() > 3000) { overflow = true; break; }	// (the check abandons such a plan: see ex.cpp)
				int at = find_id(id);
				if (!at) continue;			// the line no longer exists
				if (line_matches(gp, ln[(size_t) at - 1].text) == inv) continue;
				if (gdepth == 1) visited.push_back(id);
				cur = at;
				// the command list: commands separated by | run one after the other, each from where the
				// one before left the current line; the list fails iff its last command does
				ExResult r1;
				for (const std::string &part : split_bar(sub)) {
					r1 = exec(part);
					R.out += r1.out;
					if (!r1.out_defined) R.out_defined = false;
				}
				// known finding (known_findings.txt): the editor resumes its scan at the lower of the visited
				// line's index and the current line's; a list that deletes above the visited line and then
				// moves the current line down leaves a line still to be visited above that point
				{
					int resume = std::min(at, cur);
					for (size_t k = idx; k < ids.size(); k++) { int pos = find_id(ids[k]); if (pos && pos < resume) skip_hazard = true; }
				}
				if (r1.rejected && !r1.soft) break;	// an error in the command list ends the global (ex convention)
			}
			gdepth--;
			R.row_defined = false;
			return R;
		}
		return reject("unknown command");
	}
	std::map<long, std::string> alts;	// per line id: the other acceptable result of the last substitute (empty match at end of line)
};
