// EdModel: reference semantics of vi operators, simple edit commands, puts,
// inserts and registers (C08), on top of ViModel's motions.
//
// The reference follows the statement of C08 literally: an operator acts on the
// span between the cursor and the target of its motion, character-wise exclusive
// or inclusive or line-wise as the motion dictates (POSIX classification:
// f t ; , forward and e E % inclusive; F T and backward ; , exclusive; h l 0 ^ $
// | w W b B exclusive; j k + - _ G H M L and a doubled operator line-wise).
// What was deleted or yanked is what a put of that register inserts; deletions of
// lines (or of text spanning lines) shift the numbered registers; an upper-case
// name appends.  Where the statement and POSIX leave the outcome open, or vi
// implementations legitimately differ (cursor after a put, numbered registers
// after a yank, the unnamed register when a name was given, commands whose motion
// fails or produces an empty region, counts that leave the buffer, the empty
// buffer), the outcome is marked `corner` / `unk` and the check adopts the
// editor's state instead of judging it.  Shares no code with neatvi.
#pragma once
#include "vimodel.h"
#include <functional>
#include <set>

namespace vim {

struct Reg { U32 s; bool ln = false; bool set = false; };

struct Cmd {
	std::string kind;	// place op put ins join repl filter
	int op = 0;		// d c y < > ~ u U (case: ~ u U) for kind op; p/P for put; i a I A o O for ins
	std::string mot;	// motion ("=" for the doubled operator); for repl: the character
	int c1 = 0, c2 = 0;	// counts before the operator and before the motion
	int reg = 0;		// register prefix (0 none)
	std::string typed;	// text typed in insert mode (raw keys, without the final ESC)
	std::string filter;	// shell command of a ! filter
};

struct Outcome {
	bool fail = false;		// the reference defines the command as failing: nothing changes
	bool corner = false;		// outside the statement: adopt the editor's whole state
	std::string why;
	bool col_free = false;		// only the cursor row is judged
	bool cursor_follow = false;	// the cursor is not judged
	std::vector<Pos> alts;		// further acceptable cursor positions
	std::set<int> unk;		// registers whose content is adopted from the editor
	std::set<int> lnunk;		// registers whose line-wise flag is adopted from the editor
	bool insert = false;		// the command reads text in insert mode
	bool modified = false;
};

struct Target { bool ok = false, ln = false, incl = false, corner = false; Pos t; std::string why; };

struct InsRes { Buf lines; int row = 0, off = 0; };

struct Ed {
	Model M;
	std::map<int, Reg> R;
	bool ai = true;

	int n() const { return M.n(); }
	Buf &b() { return M.b; }
	static bool has_nl(const U32 &s) { for (unsigned c : s) if (c == '\n') return true; return false; }
	static U32 sub(const U32 &s, int a, int e) { if (a < 0) a = 0; if (e > (int) s.size()) e = (int) s.size(); return a < e ? U32(s.begin() + a, s.begin() + e) : U32(); }
	static void app(U32 &d, const U32 &s) { d.insert(d.end(), s.begin(), s.end()); }
	static Buf split(const U32 &s)	// at '\n'; a trailing piece without '\n' is a line too
	{
		Buf v; U32 cur; bool open = false;
		for (unsigned c : s) { if (c == '\n') { v.push_back(cur); cur.clear(); open = false; } else { cur.push_back(c); open = true; } }
		if (open) v.push_back(cur);
		return v;
	}
	U32 region_text(int r1, int o1, int r2, int o2) const
	{
		if (r1 == r2) return sub(M.b[(size_t) r1], o1, o2);
		U32 t = sub(M.b[(size_t) r1], o1, M.len(r1)); t.push_back('\n');
		for (int r = r1 + 1; r < r2; r++) { app(t, M.b[(size_t) r]); t.push_back('\n'); }
		app(t, sub(M.b[(size_t) r2], 0, o2));
		return t;
	}
	U32 lines_text(int r1, int r2) const { U32 t; for (int r = r1; r <= r2; r++) { app(t, M.b[(size_t) r]); t.push_back('\n'); } return t; }
	void replace_rows(int r1, int r2, const Buf &with) { M.b.erase(M.b.begin() + r1, M.b.begin() + r2 + 1); M.b.insert(M.b.begin() + r1, with.begin(), with.end()); }
	void put_cursor(int r, int o) { if (n() == 0) { M.c.row = 0; M.c.off = 0; return; } if (r >= n()) r = n() - 1; if (r < 0) r = 0; M.c.row = r; M.c.off = o > M.lastoff(r) ? M.lastoff(r) : o < 0 ? 0 : o; M.xcol = M.col_of(M.c.row, M.c.off); }

	// ---- registers
	void regput(int c, const U32 &s, bool ln, bool del, Outcome &o)
	{
		if ((ln || has_nl(s)) && (c == 0 || isalpha(c))) {
			if (del) {
				for (int i = 8; i > 0; i--) if (R['0' + i].set) R['0' + i + 1] = R['0' + i];
				Reg g; g.s = s; g.ln = ln; g.set = true; R['1'] = g;
			} else {
				// a yank of lines: whether it rotates the numbered registers is not in the statement
				for (int i = 1; i <= 9; i++) o.unk.insert('0' + i);
			}
		}
		if (c == 0) { Reg g; g.s = s; g.ln = ln; g.set = true; R[0] = g; return; }
		int lc = tolower(c);
		Reg &g = R[lc];
		if (isupper(c) && g.set) { if (g.ln != ln) o.lnunk.insert(lc); app(g.s, s); g.ln = ln; }
		else { g.s = s; g.ln = ln; g.set = true; }
		o.unk.insert(0);	// the unnamed register when a name was given: implementations differ
	}

	// a line of blanks only: whether word motions treat it like an empty line is not in the reference
	bool blank_only(int r) const { const U32 &l = M.b[(size_t) r]; if (l.empty()) return false; for (unsigned ch : l) if (!blank(ch)) return false; return true; }
	bool blank_between(int a, int z) const { if (a > z) std::swap(a, z); for (int i = std::max(0, a); i <= z && i < n(); i++) if (blank_only(i)) return true; return false; }
	void blank_corner(Target &T, int from) const { if (T.ok && blank_between(from, T.t.row)) { T.ok = false; T.corner = true; T.why = "word motion across a blank-only line"; } }

	// ---- the target of a motion used with an operator
	Target target(const std::string &m, int cnt, bool has_cnt)
	{
		Target T; int r = M.c.row, o = M.c.off, N = n();
		// the character of f F t T is remembered for ; and , whatever becomes of the command
		if ((m[0] == 'f' || m[0] == 'F' || m[0] == 't' || m[0] == 'T') && m.size() > 1) { U32 u = dec(m.substr(1)); if (!u.empty()) { M.fcmd = m[0]; M.fch = u[0]; } }
		if (N == 0) { T.corner = true; T.why = "empty buffer"; return T; }
		int len = M.len(r);
		int row = -1; bool lnm = true;
		if (m == "=" || m == "_") row = r + cnt - 1;
		else if (m == "j" || m == "+") row = r + cnt;
		else if (m == "k" || m == "-") row = r - cnt;
		else if (m == "G") row = has_cnt ? cnt - 1 : N - 1;
		else if (m == "H") { if (cnt > M.rows) { T.corner = true; T.why = "H count beyond the window"; return T; } row = std::min(M.top + cnt - 1, N - 1); }
		else if (m == "L") { if (cnt > M.rows) { T.corner = true; T.why = "L count beyond the window"; return T; } row = std::min(M.top + M.rows - cnt, N - 1); }
		else if (m == "M") row = std::min(M.top + M.rows / 2, N - 1);
		else lnm = false;
		if (lnm) {
			if (row < 0 || row >= N) { T.corner = true; T.why = "count leaves the buffer"; return T; }
			T.ok = true; T.ln = true; T.t.row = row; T.t.off = 0; return T;
		}
		T.t.row = r;
		if (m == "h" || m == "\b") { if (o == 0) return T; T.ok = true; T.t.off = std::max(0, o - cnt); return T; }
		if (m == "l" || m == " ") { if (len == 0) return T; T.ok = true; T.t.off = std::min(o + cnt, len); return T; }
		if (m == "0") { T.ok = true; T.t.off = 0; return T; }
		if (m == "^") { if (blank_only(r)) { T.corner = true; T.why = "^ on a blank-only line"; return T; } T.ok = true; T.t.off = M.first_nonblank(r); return T; }
		if (m == "$") { if (has_cnt) { T.corner = true; T.why = "N$"; return T; } T.ok = true; T.t.off = len; return T; }
		if (m == "|") { T.ok = true; T.t.off = M.off_of(r, cnt - 1); return T; }
		Model A = M;
		if (m[0] == 'f' || m[0] == 'F' || m[0] == 't' || m[0] == 'T' || m == ";" || m == ",") {
			if ((m == ";" || m == ",") && (M.fcmd == 't' || M.fcmd == 'T')) {
				int d = (M.fcmd == 't') == (m == ";") ? 1 : -1, p = o + d;
				if (p >= 0 && p < len && M.b[(size_t) r][(size_t) p] == M.fch) { T.corner = true; T.why = "; , after t/T with an adjacent target"; return T; }
			}
			bool ok = A.motion(m, cnt, has_cnt);
			M.fcmd = A.fcmd; M.fch = A.fch;
			if (!ok) return T;
			// forward finds are inclusive even when t stops on the cursor itself (adjacent target)
			{ int fc = M.fcmd; bool fwd = (fc == 'f' || fc == 't'); if (m == ",") fwd = !fwd; T.incl = fwd; }
			T.ok = true; T.t = A.c;
			return T;
		}
		if (m == "w" || m == "W") { A.opmode = true; if (!A.motion(m, cnt, has_cnt)) return T; T.ok = true; T.t = A.c; blank_corner(T, r); return T; }
		if (m == "b" || m == "B") { if (!A.motion(m, cnt, has_cnt)) return T; T.ok = true; T.t = A.c; blank_corner(T, r); return T; }
		if (m == "e" || m == "E" || m == "%") { if (!A.motion(m, cnt, has_cnt)) return T; T.ok = true; T.t = A.c; T.incl = true; if (m != "%") blank_corner(T, r); return T; }
		T.corner = true; T.why = "motion not modelled";
		return T;
	}

	// ---- insert mode: keys typed between the command and ESC
	static bool blank(unsigned c) { return c == ' ' || c == '\t'; }
	InsRes insert(U32 pref, U32 post, const std::string &typed) const
	{
		InsRes res;
		U32 aiw;
		size_t k = 0;
		while (k < pref.size() && blank(pref[k])) k++;
		aiw = sub(pref, 0, (int) k); pref = sub(pref, (int) k, (int) pref.size());
		bool first = true;
		U32 keys = dec(typed);
		U32 cur; size_t i = 0;
		int before_post = 0;
		for (;;) {
			bool nl = false;
			cur.clear();
			while (i < keys.size()) {
				unsigned c = keys[i++];
				if (c == '\n') { nl = true; break; }
				if (c == 8 || c == 127) { if (!cur.empty()) cur.pop_back(); }
				else if (c == 21) cur.clear();
				else if (c == 23) {
					while (!cur.empty() && kind(cur.back()) == 0) cur.pop_back();
					if (!cur.empty()) { int k0 = kind(cur.back()); while (!cur.empty() && kind(cur.back()) == k0) cur.pop_back(); }
				} else if (c == 22) { if (i < keys.size()) cur.push_back(keys[i++]); }
				else cur.push_back(c);
			}
			size_t sp = 0;
			while (sp < cur.size() && blank(cur[sp])) sp++;
			U32 out;
			// the automatic indentation is kept only on a line that has other characters
			if (sp < cur.size() || !pref.empty() || (!nl && !post.empty())) app(out, aiw);
			app(out, pref); app(out, cur);
			if (pref.empty()) app(aiw, sub(cur, 0, (int) sp));
			if (!ai) aiw.clear();
			(void) first; first = false;
			if (nl) {
				res.lines.push_back(out);
				pref.clear();
				if (ai) { size_t q = 0; while (q < post.size() && blank(post[q])) q++; post = sub(post, (int) q, (int) post.size()); }
				continue;
			}
			before_post = (int) out.size();
			app(out, post);
			res.lines.push_back(out);
			break;
		}
		res.row = (int) res.lines.size() - 1;
		res.off = before_post > 0 ? before_post - 1 : 0;
		return res;
	}

	// ---- one command
	Outcome apply(const Cmd &c, const std::function<std::string(const std::string &, const std::string &)> &run_filter)
	{
		Outcome o;
		int N = n();
		int cnt = (c.c1 ? c.c1 : 1) * (c.c2 ? c.c2 : 1);
		bool has_cnt = c.c1 || c.c2;
		int r = M.c.row, off = M.c.off;
		if (c.kind == "place") {
			if (N == 0) { o.corner = true; o.why = "motion in the empty buffer"; return o; }
			if (c.mot == "G") { int row = has_cnt ? cnt - 1 : N - 1; if (row >= N) { o.corner = true; o.why = "count leaves the buffer"; return o; } M.set(row, M.first_nonblank(row)); return o; }
			if ((c.mot == "j" && r + cnt >= N) || (c.mot == "k" && r - cnt < 0)) { o.corner = true; o.why = "count leaves the buffer"; return o; }
			Pos before = M.c;
			if (!M.motion(c.mot, cnt, has_cnt)) { M.c = before; o.fail = true; }
			if (strchr("wWbBeE", c.mot[0]) && blank_between(before.row, o.fail ? (strchr("bB", c.mot[0]) ? 0 : N - 1) : M.c.row)) { M.c = before; o.fail = false; o.corner = true; o.why = "word motion across a blank-only line"; }
			return o;
		}
		if (c.kind == "op") {
			o.insert = c.op == 'c';
			Target T = target(c.mot, cnt, has_cnt);
			if (T.corner) { o.corner = true; o.why = T.why; return o; }
			if (!T.ok) {
				if (c.op == 'd' || c.op == 'y' || c.op == '~' || c.op == 'u' || c.op == 'U') { o.fail = true; o.why = "the motion fails"; }
				else { o.corner = true; o.why = "c < > ! with a motion that cannot move"; }
				return o;
			}
			int r1 = r, o1 = off, r2 = T.t.row, o2 = T.t.off;
			if (T.ln) {
				if (r1 > r2) std::swap(r1, r2);
				U32 txt = lines_text(r1, r2);
				switch (c.op) {
				case 'y': regput(c.reg, txt, true, false, o); M.c.row = r1; o.col_free = true; if (M.c.off > M.lastoff(r1)) M.c.off = M.lastoff(r1); return o;
				case 'd': regput(c.reg, txt, true, true, o); replace_rows(r1, r2, Buf()); o.modified = true; put_cursor(r1, 0); if (n()) put_cursor(M.c.row, M.first_nonblank(M.c.row)); return o;
				case 'c': {
					regput(c.reg, txt, true, true, o);
					U32 pref; if (ai) { size_t k = 0; const U32 &l = M.b[(size_t) r1]; while (k < l.size() && blank(l[k])) k++; pref = sub(l, 0, (int) k); }
					InsRes in = insert(pref, U32(), c.typed);
					replace_rows(r1, r2, in.lines); o.modified = true;
					put_cursor(r1 + in.row, in.off);
					return o;
				}
				case '~': case 'u': case 'U': {
					for (int i = r1; i <= r2; i++) for (auto &ch : M.b[(size_t) i]) ch = recase(ch, c.op);
					o.modified = true;
					put_cursor(r2, M.first_nonblank(r2)); o.alts.push_back(Pos{r1, M.first_nonblank(r1)}); o.col_free = true;
					return o;
				}
				case '<': case '>': return shift(r1, r2, c.op, o);
				case '!': return filter(r1, r2, c.filter, run_filter, o);
				}
				o.corner = true; o.why = "operator not modelled"; return o;
			}
			// character-wise
			bool backward = r2 < r1 || (r2 == r1 && o2 < o1);
			if (backward) { std::swap(r1, r2); std::swap(o1, o2); }
			if (T.incl) o2 = o2 + 1;
			if (r1 == r2 && o1 == o2) {
				// nothing between the cursor and the target: a delete / yank / case change does nothing at all
				if (c.op == 'd' || c.op == 'y' || c.op == '~' || c.op == 'u' || c.op == 'U') { o.fail = true; o.why = "empty region"; }
				else { o.corner = true; o.why = "empty region"; }
				return o;
			}
			U32 txt = region_text(r1, o1, r2, o2);
			switch (c.op) {
			case 'y': regput(c.reg, txt, false, false, o); put_cursor(r1, o1); return o;
			case 'd': {
				regput(c.reg, txt, false, true, o);
				U32 nl = sub(M.b[(size_t) r1], 0, o1); app(nl, sub(M.b[(size_t) r2], o2, M.len(r2)));
				replace_rows(r1, r2, Buf{nl}); o.modified = true;
				put_cursor(r1, o1);
				return o;
			}
			case 'c': {
				regput(c.reg, txt, false, true, o);
				InsRes in = insert(sub(M.b[(size_t) r1], 0, o1), sub(M.b[(size_t) r2], o2, M.len(r2)), c.typed);
				replace_rows(r1, r2, in.lines); o.modified = true;
				put_cursor(r1 + in.row, in.off);
				return o;
			}
			case '~': case 'u': case 'U': {
				int rr = r1, oo = o1;
				while (rr < r2 || (rr == r2 && oo < o2)) {
					if (oo < M.len(rr)) { unsigned &ch = M.b[(size_t) rr][(size_t) oo]; ch = recase(ch, c.op); oo++; }
					else { rr++; oo = 0; }
				}
				o.modified = true;
				put_cursor(r2, o2);
				if (c.mot != " ") o.alts.push_back(Pos{r1, std::min(o1, M.lastoff(r1))});
				return o;
			}
			case '<': case '>': return shift(r1, r2, c.op, o);
			case '!': return filter(r1, r2, c.filter, run_filter, o);
			}
			o.corner = true; o.why = "operator not modelled"; return o;
		}
		if (c.kind == "put") {
			int name = c.reg;
			if (isupper(name)) { o.corner = true; o.why = "put of an upper-case name"; return o; }
			Reg &g = R[name];
			if (!g.set || g.s.empty()) { o.fail = true; o.why = "register empty"; return o; }
			int times = c.c1 ? c.c1 : 1;
			U32 rep; for (int i = 0; i < times; i++) app(rep, g.s);
			if (g.ln) {
				if (N == 0) { o.corner = true; o.why = "line-wise put into the empty buffer"; return o; }
				Buf ls = split(rep);
				int at = c.op == 'p' ? r + 1 : r;
				M.b.insert(M.b.begin() + at, ls.begin(), ls.end()); o.modified = true;
				put_cursor(at, M.first_nonblank(at));
				return o;
			}
			U32 line = N ? M.b[(size_t) r] : U32();
			int at = N ? std::min(off, M.lastoff(r)) + (!line.empty() && c.op == 'p' ? 1 : 0) : 0;
			U32 nl = sub(line, 0, at); app(nl, rep); app(nl, sub(line, at, (int) line.size()));
			// the rest of the line after the put text stays a line of its own, even when it is empty
			Buf ls; { U32 cur; for (unsigned ch : nl) { if (ch == '\n') { ls.push_back(cur); cur.clear(); } else cur.push_back(ch); } ls.push_back(cur); }
			if (N) replace_rows(r, r, ls); else M.b = ls;
			o.modified = true;
			if (has_nl(rep) || N == 0) o.cursor_follow = true;
			else { put_cursor(r, at + (int) rep.size() - 1); o.alts.push_back(Pos{r, at}); }
			return o;
		}
		if (c.kind == "ins") {
			o.insert = true;
			if (N == 0) {
				if (c.op == 'o' || c.op == 'O') { o.corner = true; o.why = "o / O in the empty buffer"; return o; }
				InsRes in = insert(U32(), U32(), c.typed);
				M.b = in.lines; o.modified = true; put_cursor(in.row, in.off);
				return o;
			}
			const U32 line = M.b[(size_t) r];
			int len = (int) line.size();
			if (c.op == 'o' || c.op == 'O') {
				U32 pref; if (ai) { size_t k = 0; while (k < line.size() && blank(line[k])) k++; pref = sub(line, 0, (int) k); }
				InsRes in = insert(pref, U32(), c.typed);
				int at = c.op == 'o' ? r + 1 : r;
				M.b.insert(M.b.begin() + at, in.lines.begin(), in.lines.end()); o.modified = true;
				put_cursor(at + in.row, in.off);
				return o;
			}
			int at = std::min(off, M.lastoff(r));
			if (c.op == 'I') { at = 0; while (at < len && blank(line[(size_t) at])) at++; if (at >= len) at = M.lastoff(r); }
			if (c.op == 'A') at = len;
			else if (c.op == 'a') at = len ? at + 1 : 0;
			InsRes in = insert(sub(line, 0, at), sub(line, at, len), c.typed);
			replace_rows(r, r, in.lines); o.modified = true;
			put_cursor(r + in.row, in.off);
			return o;
		}
		if (c.kind == "join") {
			if (N == 0) { o.fail = true; return o; }
			int k = c.c1 <= 1 ? 2 : c.c1;
			if (r + k - 1 >= N) { if (r == N - 1) o.fail = true; else { o.corner = true; o.why = "J count beyond the last line"; } return o; }
			U32 acc = M.b[(size_t) r];
			int coff = 0;
			for (int i = r + 1; i < r + k; i++) {
				U32 nx = M.b[(size_t) i];
				size_t q = 0; while (q < nx.size() && blank(nx[q])) q++;
				nx = sub(nx, (int) q, (int) nx.size());
				if (nx.empty()) { o.corner = true; o.why = "J with an empty or blank line"; }
				if (!acc.empty() && acc.back() == '\t') { o.corner = true; o.why = "J after a line ending in a tab"; }
				int sp = acc.empty() ? 0 : (acc.back() == ' ' || (!nx.empty() && nx[0] == ')')) ? 0 : acc.back() == '.' ? 2 : 1;
				if (!acc.empty() && (acc.back() == '?' || acc.back() == '!')) { o.corner = true; o.why = "J after ? or !"; }
				coff = (int) acc.size();
				for (int s = 0; s < sp; s++) acc.push_back(' ');
				app(acc, nx);
			}
			if (o.corner) return o;
			replace_rows(r, r + k - 1, Buf{acc}); o.modified = true;
			put_cursor(r, coff);
			return o;
		}
		if (c.kind == "repl") {
			if (N == 0) { o.fail = true; return o; }
			U32 ch = dec(c.mot);
			int k = c.c1 ? c.c1 : 1;
			int at = std::min(off, M.lastoff(r));
			if (ch.empty() || at + k > M.len(r)) { o.fail = true; o.why = "not enough characters to replace"; return o; }
			for (int i = 0; i < k; i++) M.b[(size_t) r][(size_t) (at + i)] = ch[0];
			o.modified = true;
			put_cursor(r, at + k - 1);
			return o;
		}
		o.corner = true; o.why = "command not modelled";
		return o;
	}

	static unsigned recase(unsigned ch, int op)
	{
		bool lo = ch >= 'a' && ch <= 'z', up = ch >= 'A' && ch <= 'Z';
		if (op == 'u') return up ? ch + 32 : ch;
		if (op == 'U') return lo ? ch - 32 : ch;
		return lo ? ch - 32 : up ? ch + 32 : ch;
	}
	Outcome shift(int r1, int r2, int op, Outcome o)
	{
		for (int i = r1; i <= r2; i++) {
			U32 &l = M.b[(size_t) i];
			if (op == '>') { if (!l.empty()) l.insert(l.begin(), '\t'); }
			else if (!l.empty() && l[0] == '\t') l.erase(l.begin());
			else if (!l.empty() && l[0] == ' ') { o.corner = true; o.why = "< on a line indented with spaces (shiftwidth conventions differ)"; }
		}
		o.modified = true;
		put_cursor(r1, M.first_nonblank(r1));
		return o;
	}
	Outcome filter(int r1, int r2, const std::string &cmd, const std::function<std::string(const std::string &, const std::string &)> &run, Outcome o)
	{
		std::string out = run(cmd, encs(lines_text(r1, r2)));
		Buf ls = split(dec(out));
		replace_rows(r1, r2, ls);
		o.modified = true;
		o.cursor_follow = true;
		put_cursor(r1, 0);
		return o;
	}
};

} // namespace vim
