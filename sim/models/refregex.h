// RefRegex: an independent matcher for the *generated* ERE grammar only
// (literals incl. multi-byte, '.', bracket sets with ranges / negation,
// ^ $ \< \>, groups, |, * + ? {m,n}).  Textbook priority-ordered backtracking
// over the WHOLE line, so anchors and word boundaries always see the real
// neighbours; returns the leftmost match with greedy / left-biased choices and
// the group spans of that parse.  No code shared with neatvi.
#pragma once
#include <functional>
#include <memory>
#include <string>
#include <vector>

namespace refre {

typedef std::vector<unsigned> U32;

static inline U32 decode(const std::string &s)
{
	U32 v;
	size_t i = 0;
	while (i < s.size()) {
		unsigned char c = (unsigned char) s[i];
		size_t n = c < 0x80 ? 1 : (c & 0xe0) == 0xc0 ? 2 : (c & 0xf0) == 0xe0 ? 3 : (c & 0xf8) == 0xf0 ? 4 : 1;
		if (i + n > s.size()) n = 1;
		unsigned cp = n == 1 ? c : n == 2 ? c & 0x1f : n == 3 ? c & 0x0f : c & 0x07;
		for (size_t k = 1; k < n; k++) cp = (cp << 6) | ((unsigned char) s[i + k] & 0x3f);
		v.push_back(cp);
		i += n;
	}
	return v;
}

struct Node {
	enum K { CHR, ANY, SET, BOL, EOL, WBEG, WEND, CAT, ALT, REP, GRP } k = CHR;
	unsigned ch = 0;
	bool neg = false;
	std::vector<std::pair<unsigned, unsigned>> ranges;
	std::vector<std::shared_ptr<Node>> kids;
	int lo = 0, hi = -1;	// REP bounds (-1 = unbounded)
	int grp = 0;		// GRP number
};
typedef std::shared_ptr<Node> NP;

struct Parser {
	U32 p; size_t i = 0; int ngrp = 0; bool ok = true;
	explicit Parser(const std::string &s) : p(decode(s)) {}
	bool more() const { return i < p.size(); }
	NP alt()
	{
		NP a = cat();
		if (more() && p[i] == '|') {
			NP n = std::make_shared<Node>(); n->k = Node::ALT; n->kids.push_back(a);
			while (more() && p[i] == '|') { i++; n->kids.push_back(cat()); }
			return n;
		}
		return a;
	}
	NP cat()
	{
		NP n = std::make_shared<Node>(); n->k = Node::CAT;
		while (more() && p[i] != '|' && p[i] != ')') n->kids.push_back(rep());
		return n;
	}
	NP rep()
	{
		NP a = atom();
		while (more() && (p[i] == '*' || p[i] == '+' || p[i] == '?' || p[i] == '{')) {
			NP r = std::make_shared<Node>(); r->k = Node::REP; r->kids.push_back(a);
			if (p[i] == '*') { r->lo = 0; r->hi = -1; i++; }
			else if (p[i] == '+') { r->lo = 1; r->hi = -1; i++; }
			else if (p[i] == '?') { r->lo = 0; r->hi = 1; i++; }
			else {
				i++;
				int lo = 0, hi = -1; bool comma = false, any = false;
				while (more() && p[i] >= '0' && p[i] <= '9') { lo = lo * 10 + (int) (p[i] - '0'); i++; any = true; }
				if (more() && p[i] == ',') { comma = true; i++; int h = 0; bool ah = false; while (more() && p[i] >= '0' && p[i] <= '9') { h = h * 10 + (int) (p[i] - '0'); i++; ah = true; } hi = ah ? h : -1; }
				if (!comma) hi = lo;
				if (!more() || p[i] != '}' || !any) ok = false; else i++;
				r->lo = lo; r->hi = hi;
			}
			a = r;
		}
		return a;
	}
	NP atom()
	{
		NP n = std::make_shared<Node>();
		if (!more()) { ok = false; return n; }
		unsigned c = p[i++];
		if (c == '.') n->k = Node::ANY;
		else if (c == '^') n->k = Node::BOL;
		else if (c == '$') n->k = Node::EOL;
		else if (c == '(') {
			n->k = Node::GRP; n->grp = ++ngrp;
			n->kids.push_back(alt());
			if (!more() || p[i] != ')') ok = false; else i++;
		} else if (c == '[') {
			n->k = Node::SET;
			if (more() && p[i] == '^') { n->neg = true; i++; }
			bool first = true;
			while (more() && (p[i] != ']' || first)) {
				unsigned a = p[i++], b = a;
				if (i + 1 < p.size() && p[i] == '-' && p[i + 1] != ']') { b = p[i + 1]; i += 2; }
				n->ranges.push_back({a, b});
				first = false;
			}
			if (!more()) ok = false; else i++;
		} else if (c == '\\') {
			if (!more()) { ok = false; return n; }
			unsigned d = p[i++];
			if (d == '<') n->k = Node::WBEG;
			else if (d == '>') n->k = Node::WEND;
			else { n->k = Node::CHR; n->ch = d; }
		} else { n->k = Node::CHR; n->ch = c; }
		return n;
	}
};

struct Match { bool found = false; int so = 0, eo = 0; std::vector<std::pair<int, int>> grp; };	// code point offsets

struct Matcher {
	NP root; int ngrp = 0; bool icase = false; bool valid = false;
	const U32 *line = nullptr;
	std::vector<std::pair<int, int>> caps;
	long steps = 0; int maxdepth = 0;

	Matcher(const std::string &pat, bool ic) : icase(ic)
	{
		Parser ps(pat);
		root = ps.alt();
		valid = ps.ok && !ps.more();
		ngrp = ps.ngrp;
	}
	static bool isword(unsigned c) { return (c >= '0' && c <= '9') || (c >= 'a' && c <= 'z') || (c >= 'A' && c <= 'Z') || c == '_' || c > 127; }
	unsigned fold(unsigned c) const { return icase && c >= 'A' && c <= 'Z' ? c + 32 : c; }

	typedef std::function<bool(int)> Cont;
	// match node n at position pos, then the continuation
	bool m(const NP &n, int pos, int depth, const Cont &k)
	{
		const U32 &s = *line;
		int len = (int) s.size();
		if (++steps > 2000000) return false;
		if (depth > maxdepth) maxdepth = depth;
		switch (n->k) {
		case Node::CHR: return pos < len && fold(s[(size_t) pos]) == fold(n->ch) && k(pos + 1);
		case Node::ANY: return pos < len && k(pos + 1);
		case Node::SET: {
			if (pos >= len) return false;
			unsigned c = fold(s[(size_t) pos]);
			bool in = false;
			for (auto &r : n->ranges) if (c >= fold(r.first) && c <= fold(r.second)) in = true;
			return in != n->neg && k(pos + 1);
		}
		case Node::BOL: return pos == 0 && k(pos);
		case Node::EOL: return pos == len && k(pos);
		case Node::WBEG: return (pos == 0 || !isword(s[(size_t) pos - 1])) && pos < len && isword(s[(size_t) pos]) && k(pos);
		case Node::WEND: return pos > 0 && isword(s[(size_t) pos - 1]) && (pos == len || !isword(s[(size_t) pos])) && k(pos);
		case Node::CAT: return cat(n, 0, pos, depth, k);
		case Node::ALT:
			for (auto &kid : n->kids) {
				std::vector<std::pair<int, int>> save = caps;
				if (m(kid, pos, depth + 1, k)) return true;
				caps = save;
			}
			return false;
		case Node::GRP: {
			std::pair<int, int> old = caps[(size_t) n->grp];
			int g = n->grp;
			bool r = m(n->kids[0], pos, depth + 1, [&, g, pos](int e) {
				std::pair<int, int> o2 = caps[(size_t) g];
				caps[(size_t) g] = {pos, e};
				if (k(e)) return true;
				caps[(size_t) g] = o2;
				return false;
			});
			if (!r) caps[(size_t) g] = old;
			return r;
		}
		case Node::REP: return rep(n, 0, pos, depth, k);
		}
		return false;
	}
	bool cat(const NP &n, size_t idx, int pos, int depth, const Cont &k)
	{
		if (idx == n->kids.size()) return k(pos);
		return m(n->kids[idx], pos, depth + 1, [&, idx, depth](int e) { return cat(n, idx + 1, e, depth + 1, k); });
	}
	bool rep(const NP &n, int count, int pos, int depth, const Cont &k)
	{
		// greedy: one more iteration first (if allowed and it consumes something), then stop
		if (n->hi < 0 || count < n->hi) {
			std::vector<std::pair<int, int>> save = caps;
			// an empty iteration is only worth taking while the minimum is not reached
			if (m(n->kids[0], pos, depth + 1, [&, count, pos, depth](int e) { return (e > pos || count < n->lo) && rep(n, count + 1, e, depth + 1, k); })) return true;
			caps = save;
		}
		return count >= n->lo && k(pos);
	}
	// leftmost match starting at or after `from` (code point offset), judged against the whole line
	Match search(const U32 &s, int from)
	{
		Match r;
		line = &s;
		for (int st = from; st <= (int) s.size(); st++) {
			caps.assign((size_t) ngrp + 1, {-1, -1});
			int end = -1;
			if (m(root, st, 0, [&](int e) { end = e; return true; })) {
				r.found = true; r.so = st; r.eo = end;
				r.grp = caps;
				r.grp[0] = {st, end};
				return r;
			}
		}
		return r;
	}
};

} // namespace refre
