// Running one plan against the real editor (loaded as a shared library) on top
// of the simulated kernel, with a property check observing at quiescent points.
#pragma once
#include "kernel.h"

struct Violation {
	std::string cls;	// violation class: names the oracle clause and the shape of the failure
	std::string msg;
	int step = -1;
};

struct Editor {			// read-only probes into the loaded editor (vi.h interface)
	void *h = nullptr;
	int (*nv_main)(int, char **) = nullptr;
	int *xrow = nullptr, *xoff = nullptr, *xtop = nullptr, *xleft = nullptr, *xquit = nullptr, *xvis = nullptr;
	void *(*ex_lbuf)() = nullptr;
	int (*lbuf_len)(void *) = nullptr;
	char *(*lbuf_get)(void *, int) = nullptr;
	int (*lbuf_jump)(void *, int, int *, int *) = nullptr;
	char *(*ex_path)() = nullptr;
	char *(*reg_get)(int, int *) = nullptr;
	int (*term_rows)() = nullptr;
	int (*term_cols)() = nullptr;
	int (*ren_pos)(char *, int) = nullptr;
	int (*ren_cursor)(char *, int) = nullptr;
	int (*uc_slen)(char *) = nullptr;
	int (*ex_kwd)(char **, int *) = nullptr;
	long *depth_cuts = nullptr;	// NEATVI_VERIF hook in regex.c (may be absent)
};

struct RunCtx;

struct Check {
	virtual ~Check() {}
	virtual const char *id() const = 0;
	virtual const char *level() const { return "exploration"; }
	// number of plans of the deterministic grid for this tier (0 = none)
	virtual long grid_size(int tier) { (void) tier; return 0; }
	virtual Plan grid_plan(long idx, int tier) { (void) idx; (void) tier; return Plan(); }
	virtual Plan generate(unsigned long long seed, int tier) = 0;
	virtual void begin(RunCtx &) {}
	// after step `after` has been fully processed (-1: before the first step)
	virtual void quiescent(RunCtx &, int after) { (void) after; }
	virtual void finish(RunCtx &) {}
	// twin executions: when this returns true, `out` is run first (phase 1), then p itself (phase 2);
	// the check compares what it recorded in phase 1 with phase 2
	virtual bool twin(const Plan &p, Plan &out) { (void) p; (void) out; return false; }
	virtual void set_phase(int phase) { (void) phase; }
	// extra candidates for minimisation (smaller variants of p)
	virtual void shrink_more(const Plan &p, std::vector<Plan> &out) { (void) p; (void) out; }
	virtual std::string rule() const = 0;
	virtual std::vector<std::string> assumptions() const { return {}; }
	virtual std::vector<std::string> excluded() const { return {}; }
};

struct RunResult {
	int outcome = OUT_NONE;
	std::string outcome_note;
	int exit_status = 0;
	int last_step = -1;		// step in flight when the run ended
	bool quit_sent = false;
	unsigned long long fp = 0, shape = 0;
	bool has_violation = false;
	Violation v;
	long comparisons = 0;
	long calls = 0;
	long long sim_ns = 0;
	std::map<std::string, long> probes, fired, configured, counters;
	std::vector<unsigned long long> states;	// abstract state hashes seen at quiescent points
	std::string tail;
	std::string screen;
	std::vector<std::string> unmodelled;
};

struct RunCtx : KernelClient {
	const Plan &plan;
	Check &check;
	Editor &ed;
	RunResult &res;
	int cur = -1;			// index of the step in flight (-1 before the first)
	int nsteps;
	bool quit_sent = false;
	int enters = 0;
	size_t out_mark = 0;		// out_stream size when the current step began
	bool in_finish = false;

	RunCtx(const Plan &p, Check &c, Editor &e, RunResult &r) : plan(p), check(c), ed(e), res(r), nsteps((int) p.steps.size()) {}
	void need_input() override;

	// ---- probes (valid at quiescent points and in finish())
	int nlines() { void *lb = ed.ex_lbuf(); return lb ? ed.lbuf_len(lb) : 0; }
	std::string line(int i) {		// without the terminator
		void *lb = ed.ex_lbuf();
		char *s = lb ? ed.lbuf_get(lb, i) : nullptr;
		if (!s) return "";
		size_t n = strlen(s);
		if (n && s[n - 1] == '\n') n--;
		return std::string(s, n);
	}
	std::vector<std::string> text() {
		std::vector<std::string> v;
		int n = nlines();
		for (int i = 0; i < n; i++) v.push_back(line(i));
		return v;
	}
	int row() { return *ed.xrow; }
	int off() { return *ed.xoff; }
	int top() { return *ed.xtop; }
	int left() { return *ed.xleft; }
	std::string path() { char *p = ed.ex_path(); return p ? p : ""; }
	bool has_reg(int c) { return ed.reg_get(c, nullptr) != nullptr; }
	std::string reg(int c, int *ln = nullptr) { char *p = ed.reg_get(c, ln); return p ? p : ""; }
	std::string step_output() { return K.out_stream.substr(out_mark < K.out_stream.size() ? out_mark : K.out_stream.size()); }
	std::string file(const std::string &p, bool *exists = nullptr) {
		auto it = K.fs.find(K.real(p));
		if (exists) *exists = it != K.fs.end();
		return it != K.fs.end() ? it->second.data : "";
	}
	void compared(long n = 1) { res.comparisons += n; }
	void count(const std::string &k, long n = 1) { res.counters[k] += n; }
	void state(unsigned long long h) { res.states.push_back(h); }
	// record a violation and end the run
	void violate(const std::string &cls, const std::string &msg);
};

bool load_editor(const std::string &lib, Editor &ed, std::string &err);
void unload_editor(Editor &ed);
// one complete simulated execution; the library is loaded and unloaded around it
RunResult run_plan(const Plan &plan, Check &check, const std::string &lib);

Check *find_check(const std::string &id);
std::vector<std::string> all_checks();
void register_check(Check *c);
struct CheckReg { explicit CheckReg(Check *c) { register_check(c); } };
