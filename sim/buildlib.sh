#!/bin/sh
# buildlib.sh <repo> <flavour: plain|asan> <outdir>
# Builds neatvi from <repo>'s current working tree as a shared library whose
# libc entry points are redirected to the simulator (see shim.h, syms.txt).
set -e
REPO=$1; FLAV=$2; OUT=$3
SIM=$(cd "$(dirname "$0")" && pwd)
mkdir -p "$OUT"
OBJS=$(sed -n '/^OBJS *=/,/[^\\]$/p' "$REPO/Makefile" | tr -d '\\\n' | sed 's/^OBJS *= *//')
[ -n "$OBJS" ] || OBJS=$(cd "$REPO" && ls *.c | grep -v '^stag\.c$' | sed 's/\.c$/.o/')
case $FLAV in
plain) CC=gcc; CFLAGS="-O2 -g -fPIC -Wall -fno-builtin-printf -fno-builtin-puts -fno-builtin-putchar -fno-builtin-fputs -fno-builtin-fputc -fno-builtin-fwrite"; LDF="" ;;
asan) CC=clang-14; command -v clang-14 >/dev/null || CC=clang
      CFLAGS="-O1 -g -fPIC -fno-omit-frame-pointer -fsanitize=address -fsanitize=bounds -fno-sanitize-recover=all -fno-builtin-printf -fno-builtin-puts -fno-builtin-putchar -fno-builtin-fputs -fno-builtin-fputc -fno-builtin-fwrite"
      LDF="" ;;
*) echo "bad flavour" >&2; exit 2 ;;
esac
LIST=""
for o in $OBJS; do
	c=${o%.o}.c
	[ -f "$REPO/$c" ] || continue
	$CC $CFLAGS -DNEATVI_VERIF -I"$REPO" -include "$SIM/shim.h" -c "$REPO/$c" -o "$OUT/$o" 2>"$OUT/$o.log" || { cat "$OUT/$o.log" >&2; exit 1; }
	objcopy --redefine-syms="$SIM/syms.txt" "$OUT/$o"
	LIST="$LIST $OUT/$o"
done
if [ "$FLAV" = asan ]; then
	$CC -shared -Wl,-Bsymbolic -o "$OUT/libnv.so" $LIST -fsanitize=address -fsanitize=bounds
else
	$CC -shared -Wl,-Bsymbolic -o "$OUT/libnv.so" $LIST
fi
# audit: what is still undefined must be sim_* or pure libc
nm -u "$OUT/libnv.so" | awk '{print $2}' | sed 's/@.*//' | sort -u > "$OUT/undefined.txt"
