#include "run.h"
#include <dlfcn.h>
#include <csignal>
#include <sys/time.h>

static std::vector<Check *> &registry()
{
	static std::vector<Check *> r;
	return r;
}
void register_check(Check *c) { registry().push_back(c); }
Check *find_check(const std::string &id)
{
	for (Check *c : registry())
		if (id == c->id()) return c;
	return nullptr;
}
std::vector<std::string> all_checks()
{
	std::vector<std::string> v;
	for (Check *c : registry()) v.push_back(c->id());
	return v;
}

bool load_editor(const std::string &lib, Editor &ed, std::string &err)
{
	ed = Editor();
	ed.h = dlopen(lib.c_str(), RTLD_NOW | RTLD_LOCAL);
	if (!ed.h) { err = dlerror(); return false; }
#define SYM(field, name) do { *(void **) &ed.field = dlsym(ed.h, name); if (!ed.field) { err = std::string("missing symbol ") + name; return false; } } while (0)
	SYM(nv_main, "nv_main");
	SYM(xrow, "xrow"); SYM(xoff, "xoff"); SYM(xtop, "xtop"); SYM(xleft, "xleft"); SYM(xquit, "xquit"); SYM(xvis, "xvis");
	SYM(ex_lbuf, "ex_lbuf"); SYM(lbuf_len, "lbuf_len"); SYM(lbuf_get, "lbuf_get"); SYM(lbuf_jump, "lbuf_jump");
	SYM(ex_path, "ex_path"); SYM(reg_get, "reg_get");
	SYM(term_rows, "term_rows"); SYM(term_cols, "term_cols");
	SYM(ex_kwd, "ex_kwd");
	SYM(ren_pos, "ren_pos"); SYM(ren_cursor, "ren_cursor"); SYM(uc_slen, "uc_slen");
#undef SYM
	*(void **) &ed.depth_cuts = dlsym(ed.h, "nv_verif_depth_cuts");
	return true;
}

void unload_editor(Editor &ed)
{
	if (ed.h) dlclose(ed.h);
	ed = Editor();
}

void RunCtx::violate(const std::string &cls, const std::string &msg)
{
	if (res.has_violation) return;
	res.has_violation = true;
	res.v.cls = cls; res.v.msg = msg; res.v.step = cur;
	if (!in_finish) K.end_run(OUT_VIOLATION, cls);
}

void RunCtx::need_input()
{
	// the environment's own reaction: a user answers "[enter to continue]"
	if (cur >= 0 && *ed.xvis && enters < 200) {
		std::string last = K.vt.rowtext(K.rows - 1);
		static const std::string prompt = "[enter to continue]";
		// on a narrow terminal only the tail of the prompt is visible
		bool tail = last.size() >= 2 && last.size() < prompt.size() && !prompt.compare(prompt.size() - last.size(), last.size(), last);
		if (last.find(prompt) != std::string::npos || tail) {
			enters++;
			K.probe("enter_to_continue_answered");
			K.ev("user_enter", 0, 0);
			K.type("\n");
			return;
		}
	}
	if (quit_sent) K.end_run(OUT_NOQUIT, "editor asked for input after the quit suffix");
	check.quiescent(*this, cur);
	for (;;) {
		cur++;
		res.last_step = cur;
		if (cur >= nsteps) {
			K.begin_step(cur, nullptr);
			out_mark = K.out_stream.size();
			quit_sent = true; res.quit_sent = true;
			K.step_budget = 50000;	// bounded liveness: the quit suffix must end the run within this many calls
			if (plan.quit.empty()) K.end_run(OUT_PLAN_END, "plan has no quit suffix");
			K.ev("user_quit", (long) plan.quit.size(), fnv_str(plan.quit));
			K.type(plan.quit);
			return;
		}
		const Step &s = plan.steps[(size_t) cur];
		K.begin_step(cur, &s);
		out_mark = K.out_stream.size();
		K.advance(plan.knobs.think_ns);
		if (s.op == "keys" || s.op == "check") {
			if (s.keys.empty()) continue;
			K.ev("user_keys", (long) s.keys.size(), fnv_str(s.keys));
			K.type(s.keys);
			return;
		} else if (s.op == "touch") {
			K.ext_write(s.path, s.data, s.n1);
		} else if (s.op == "remove") {
			K.ext_remove(s.path);
		} else if (s.op == "advance") {
			K.advance((long long) s.n1);
			K.ev("user_think", s.n1, 0);
		} else if (s.op == "resize") {
			K.resize((int) s.n1, (int) s.n2);
			K.ev("user_resize", s.n1 * 1000 + s.n2, 0);
			K.probe("sigwinch_at_quiescence");
			if (K.disp[SIGWINCH] == 2) {
				K.deliver(SIGWINCH);
				return;		// nothing typed: the pending poll fails with EINTR
			}
		}
		check.quiescent(*this, cur);
	}
}

// overwrite the stack area the editor is about to use, so that reads of
// uninitialised locals are a function of the plan and not of earlier runs
static void __attribute__((noinline)) scrub_stack()
{
	volatile char pad[192 * 1024];
	for (size_t i = 0; i < sizeof pad; i += 64) pad[i] = (char) 0x5a;
	for (size_t i = 0; i < sizeof pad; i++) pad[i] = (char) 0x5a;
}

static int __attribute__((noinline)) call_main(Editor &ed, std::vector<char *> &argv)
{
	return ed.nv_main((int) argv.size() - 1, argv.data());
}

static RunResult run_single(const Plan &plan, Check &check, const std::string &lib);

RunResult run_plan(const Plan &plan, Check &check, const std::string &lib)
{
	Plan tw;
	if (check.twin(plan, tw)) {
		check.set_phase(1);
		RunResult rb = run_single(tw, check, lib);
		check.set_phase(2);
		if (rb.outcome == OUT_PLAN_END && starts_with(rb.outcome_note, "cannot load")) return rb;
		RunResult ra = run_single(plan, check, lib);
		ra.calls += rb.calls;
		ra.sim_ns += rb.sim_ns;
		check.set_phase(0);
		return ra;
	}
	check.set_phase(0);
	return run_single(plan, check, lib);
}

static RunResult run_single(const Plan &plan, Check &check, const std::string &lib)
{
	RunResult res;
	Editor ed;
	std::string err;
	if (!load_editor(lib, ed, err)) {
		res.outcome = OUT_PLAN_END;
		res.outcome_note = "cannot load editor: " + err;
		return res;
	}
	RunCtx *ctx = new RunCtx(plan, check, ed, res);
	K.reset(plan, ctx);
	K.budget_extra = [ctx]() { long n = ctx->nlines(), b = 0; for (long i = 0; i < n; i++) b += (long) ctx->line((int) i).size() + 1; return 40l * n + 4l * b; };
	std::vector<std::string> args = plan.argv;
	if (args.empty()) args.push_back("vi");
	std::vector<char *> argv;
	for (auto &a : args) argv.push_back((char *) a.c_str());
	argv.push_back(nullptr);
	check.begin(*ctx);
	K.begin_step(-1, nullptr);
	// every single execution gets its own CPU budget (the worker's SIGVTALRM handler reports a hang)
	{
		struct itimerval it = {};
		it.it_value.tv_sec = getenv("NVSIM_WATCHDOG") ? atoi(getenv("NVSIM_WATCHDOG")) : 20;
		setitimer(ITIMER_VIRTUAL, &it, nullptr);
	}
	if (!setjmp(K.run_jb)) {
		scrub_stack();
		call_main(ed, argv);
		K.outcome = OUT_RETURNED;
	}
	{
		struct itimerval it = {};
		setitimer(ITIMER_VIRTUAL, &it, nullptr);
	}
	res.outcome = K.outcome;
	res.outcome_note = K.outcome_note;
	res.exit_status = K.exit_status;
	ctx->in_finish = true;
	if (!res.has_violation) check.finish(*ctx);
	res.fp = K.fingerprint();
	res.shape = K.shape.h;
	res.calls = K.run_calls;
	res.sim_ns = K.clock_ns - 1700000000ll * 1000000000ll;
	res.probes = K.probes; res.fired = K.fired; res.configured = K.configured;
	res.unmodelled = K.unmodelled;
	if (res.has_violation) { res.tail = K.tail_log(40); res.screen = K.vt.dump(); }
	K.budget_extra = nullptr;
	K.release_memory();
	delete ctx;
	K.client = nullptr;
	unload_editor(ed);
	return res;
}
