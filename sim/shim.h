/* Force-included (-include) before every neatvi translation unit when it is
 * built for the simulator.  It spends the include guards of every system
 * header neatvi uses and then redirects the two entry points that cannot be
 * redirected by renaming an undefined symbol: getchar (a macro over getc) and
 * fork (which must "return twice" inside one process).  Everything else is
 * redirected after compilation by objcopy --redefine-syms (see syms.txt). */
#ifndef NVSIM_SHIM_H
#define NVSIM_SHIM_H
#include <ctype.h>
#include <fcntl.h>
#include <poll.h>
#include <setjmp.h>
#include <signal.h>
#include <stdarg.h>
#include <stdio.h>
#include <stdlib.h>
#include <string.h>
#include <sys/ioctl.h>
#include <sys/socket.h>
#include <sys/stat.h>
#include <sys/un.h>
#include <sys/wait.h>
#include <termios.h>
#include <unistd.h>

int sim_getchar(void);
int sim_fork_begin(void);
int sim_fork_parent(void);
extern jmp_buf sim_fork_jb;

#undef getchar
#define getchar() sim_getchar()
/* the child branch of neatvi's own cmd_make runs against a copy of the
 * simulated fd table until sim_execvp longjmps back here */
#define fork() (sim_fork_begin() ? -1 : (setjmp(sim_fork_jb) ? sim_fork_parent() : 0))
#endif
