// nvsim: worker / replayer.  The supervisor (bin/check) starts several of these.
//
//   nvsim run  <prop> <tier> <lo> <hi> <lib> <replaydir> [known-cls,...]
//   nvsim grid <prop> <tier> <lo> <hi> <lib> <replaydir> [known-cls,...]
//   nvsim replay <file> <lib>
//   nvsim gen <prop> <tier> <seed>
//   nvsim list
#include "run.h"
#include <csignal>
#include <cstdio>
#include <cstdlib>
#include <fstream>
#include <set>
#include <sstream>
#include <sys/time.h>
#include <unistd.h>

extern "C" __attribute__((used)) const char *__asan_default_options() { return "exitcode=77:detect_leaks=0:abort_on_error=0:allocator_may_return_null=1:handle_segv=1:detect_stack_use_after_return=0"; }
extern "C" __attribute__((used)) const char *__ubsan_default_options() { return "halt_on_error=1:exitcode=77:print_stacktrace=1"; }

#if defined(__has_feature)
#if __has_feature(address_sanitizer)
#define NVSIM_ASAN 1
extern "C" void __sanitizer_set_death_callback(void (*)(void));
extern "C" void __sanitizer_print_stack_trace(void);
#endif
#endif

static void death_note()
{
	fprintf(stderr, "\nCALLS run=%ld step=%ld sim_s=%lld\n", K.run_calls, K.step_calls, (long long) (K.clock_ns / 1000000000ll - 1700000000ll));
	// where the editor was when the sanitizer stopped it (async-signal-unsafe code is fine here: we are dying)
	std::string k = K.step ? (K.step->op == "keys" ? K.step->keys : K.step->op) : std::string("<quit suffix or start>");
	fprintf(stderr, "\nINFLIGHT step=%d keys=%s\n", K.cur_step, vis(k, 300).c_str());
	fprintf(stderr, "EVENT-TAIL\n%s", K.tail_log(12).c_str());
}

static volatile unsigned long long g_inflight_seed;
static volatile int g_inflight_kind;	// 0 seed 1 grid index
static void death_note();
static void watchdog(int)
{
#ifdef NVSIM_ASAN
	__sanitizer_print_stack_trace();
#endif
	death_note();
	char b[96];
	int n = snprintf(b, sizeof b, "\nWATCHDOG %s %llu\n", g_inflight_kind ? "grid" : "seed", g_inflight_seed);
	if (write(1, b, (size_t) n) < 0) {}
	_exit(78);
}
static void arm(unsigned long long seed, int kind, int secs)
{
	g_inflight_seed = seed; g_inflight_kind = kind;
	struct itimerval it = {};
	it.it_value.tv_sec = secs;
	setitimer(ITIMER_VIRTUAL, &it, nullptr);
}

static std::string slurp(const std::string &path)
{
	std::ifstream f(path, std::ios::binary);
	std::stringstream ss;
	ss << f.rdbuf();
	return ss.str();
}

static Json mapj(const std::map<std::string, long> &m)
{
	Json j = Json::obj();
	for (auto &kv : m) j.set(kv.first, kv.second);
	return j;
}

static bool same_violation(const RunResult &r, const std::string &cls)
{
	return r.has_violation && r.v.cls == cls;
}

// ddmin over steps, then drop faults, then check-specific candidates, then knobs
static Plan minimise(const Plan &orig, Check &chk, const std::string &lib, const std::string &cls, long *reruns)
{
	Plan best = orig;
	auto ok = [&](const Plan &p) { (*reruns)++; return same_violation(run_plan(p, chk, lib), cls); };
	size_t chunk = best.steps.size() / 2;
	while (chunk >= 1 && *reruns < 600) {
		bool any = false;
		for (size_t i = 0; i + chunk <= best.steps.size() && *reruns < 600;) {
			Plan c = best;
			c.steps.erase(c.steps.begin() + (long) i, c.steps.begin() + (long) (i + chunk));
			if (ok(c)) { best = c; any = true; } else i += chunk;
		}
		if (!any || chunk > best.steps.size()) chunk /= 2;
		else if (chunk > best.steps.size() / 2 && chunk > 1) chunk = best.steps.size() / 2;
		if (chunk == 0) break;
	}
	for (size_t i = 0; i < best.steps.size(); i++)
		for (size_t f = 0; f < best.steps[i].faults.size() && *reruns < 800;) {
			Plan c = best;
			c.steps[i].faults.erase(c.steps[i].faults.begin() + (long) f);
			if (ok(c)) best = c; else f++;
		}
	for (int round = 0; round < 6 && *reruns < 1000; round++) {
		std::vector<Plan> cand;
		chk.shrink_more(best, cand);
		bool any = false;
		for (auto &c : cand) {
			if (*reruns >= 1000) break;
			if (ok(c)) { best = c; any = true; break; }
		}
		if (!any) break;
	}
	{
		Knobs def;
		Plan c = best;
		c.knobs = def;
		if (ok(c)) best = c;
		else {
			c = best; c.knobs.read_policy = 0; if (ok(c)) best = c;
			c = best; c.knobs.write_policy = 0; if (ok(c)) best = c;
			c = best; c.knobs.pipe_cap = def.pipe_cap; if (ok(c)) best = c;
			c = best; c.knobs.stall_pct = 0; if (ok(c)) best = c;
		}
	}
	for (size_t i = 0; i < best.files.size() && *reruns < 1100;) {
		Plan c = best;
		c.files.erase(c.files.begin() + (long) i);
		if (ok(c)) best = c; else i++;
	}
	return best;
}

static Json result_json(const RunResult &r)
{
	Json j = Json::obj();
	j.set("outcome", outcome_name(r.outcome)).set("note", r.outcome_note).set("fp", hex64(r.fp)).set("shape", hex64(r.shape));
	j.set("last_step", r.last_step).set("calls", r.calls);
	if (r.has_violation) {
		Json v = Json::obj();
		v.set("cls", r.v.cls).set("msg", r.v.msg).set("step", r.v.step);
		j.set("violation", v);
	}
	return j;
}

static int cmd_run(int argc, char **argv, bool grid)
{
	if (argc < 8) return 2;
	Check *chk = find_check(argv[2]);
	if (!chk) { fprintf(stderr, "unknown check %s\n", argv[2]); return 2; }
	int tier = !strcmp(argv[3], "thorough") ? 1 : 0;
	unsigned long long lo = strtoull(argv[4], nullptr, 10), hi = strtoull(argv[5], nullptr, 10);
	std::string lib = argv[6], rdir = argv[7];
	std::set<std::string> known;
	if (argc > 8) {
		std::string k = argv[8];
		size_t i = 0;
		while (i <= k.size()) {
			size_t j = k.find(',', i);
			if (j == std::string::npos) j = k.size();
			if (j > i) known.insert(k.substr(i, j - i));
			i = j + 1;
		}
	}
	int wd = getenv("NVSIM_WATCHDOG") ? atoi(getenv("NVSIM_WATCHDOG")) : 20;
	signal(SIGVTALRM, watchdog);
	std::map<std::string, long> probes, fired, configured, counters, outcomes, known_hits;
	std::set<unsigned long long> shapes, states;
	long runs = 0, nontrivial = 0, comparisons = 0, calls = 0, viol = 0;
	long long sim_ns = 0;
	std::vector<std::string> unmodelled;
	Json samples = Json::arr();
	for (unsigned long long s = lo; s < hi; s++) {
		arm(s, grid, wd);
		printf("BEGIN %llu\n", s);
		fflush(stdout);
		Plan plan = grid ? chk->grid_plan((long) s, tier) : chk->generate(s, tier);
		RunResult r = run_plan(plan, *chk, lib);
		runs++;
		if (r.outcome == OUT_PLAN_END && starts_with(r.outcome_note, "cannot load")) {
			printf("FATAL %s\n", r.outcome_note.c_str());
			return 2;
		}
		outcomes[outcome_name(r.outcome)]++;
		for (auto &kv : r.probes) probes[kv.first] += kv.second;
		for (auto &kv : r.fired) fired[kv.first] += kv.second;
		for (auto &kv : r.configured) configured[kv.first] += kv.second;
		for (auto &kv : r.counters) counters[kv.first] += kv.second;
		for (auto &u : r.unmodelled) if (unmodelled.size() < 20) unmodelled.push_back(u);
		shapes.insert(r.shape);
		for (auto h : r.states) if (states.size() < 4000000) states.insert(h);
		comparisons += r.comparisons; calls += r.calls; sim_ns += r.sim_ns;
		if (r.comparisons > 0) nontrivial++;
		if (samples.a.size() < 3 && r.comparisons > 0 && !r.has_violation) {
			Json pj = plan.to_json();
			std::string d = pj.dump();
			if (d.size() < 6000) samples.push(pj);
			else {
				Json brief = Json::obj();
				brief.set("seed", plan.seed).set("variant", plan.variant).set("steps", (long) plan.steps.size()).set("note", "plan too large to inline; regenerate with: nvsim gen");
				Json ks = Json::arr();
				for (size_t i = 0; i < plan.steps.size() && i < 12; i++) ks.push(vis(plan.steps[i].op == "keys" ? plan.steps[i].keys : plan.steps[i].op, 80));
				brief.set("first_steps", ks);
				samples.push(brief);
			}
		}
		printf("END %llu %s %s %d\n", s, outcome_name(r.outcome), hex64(r.fp).c_str(), r.comparisons > 0);
		if (r.has_violation) {
			if (known.count(r.v.cls)) {
				known_hits[r.v.cls]++;
				if (known_hits[r.v.cls] == 1) {
					Json kj = Json::obj();
					kj.set("cls", r.v.cls).set("msg", r.v.msg).set("seed", s);
					printf("KNOWN %s\n", kj.dump().c_str());
				}
			} else {
				viol++;
				// (the reruns below count as this seed being in flight again, should the watchdog fire in them)
				printf("BEGIN %llu\n", s);
				fflush(stdout);
				// gate 1: the same plan twice in this process
				RunResult r2 = run_plan(plan, *chk, lib);
				bool det = r2.has_violation && r2.v.cls == r.v.cls && r2.fp == r.fp;
				long reruns = 0;
				Plan small = det ? minimise(plan, *chk, lib, r.v.cls, &reruns) : plan;
				RunResult rs = run_plan(small, *chk, lib);
				Json rep = Json::obj();
				rep.set("property", chk->id()).set("seed", s).set("grid", grid).set("tier", tier ? "thorough" : "quick");
				rep.set("cls", rs.has_violation ? rs.v.cls : r.v.cls).set("msg", rs.has_violation ? rs.v.msg : r.v.msg);
				rep.set("step", rs.has_violation ? rs.v.step : r.v.step);
				rep.set("fp", hex64(rs.fp)).set("deterministic_in_process", det).set("shrink_reruns", reruns);
				rep.set("original_steps", (long) plan.steps.size()).set("minimised_steps", (long) small.steps.size());
				rep.set("outcome", outcome_name(rs.outcome));
				rep.set("plan", small.to_json());
				rep.set("event_tail", rs.tail).set("screen", rs.screen);
				std::string file = rdir + "/" + chk->id() + "-" + (grid ? "g" : "") + std::to_string(s) + ".json";
				std::ofstream(file, std::ios::binary) << rep.dump(1) << "\n";
				Json cj = Json::obj();
				cj.set("seed", s).set("cls", rep.str("cls")).set("msg", rep.str("msg")).set("file", file).set("det", det).set("fp", hex64(rs.fp));
				printf("CANDIDATE %s\n", cj.dump().c_str());
				fflush(stdout);
				if (viol >= 3) break;	// enough for one worker; the supervisor stops the batch
			}
		}
	}
	arm(0, 0, 0);
	Json st = Json::obj();
	st.set("runs", runs).set("nontrivial", nontrivial).set("comparisons", comparisons).set("calls", calls).set("sim_ns", (long long) sim_ns);
	st.set("probes", mapj(probes)).set("fired", mapj(fired)).set("configured", mapj(configured)).set("counters", mapj(counters));
	st.set("outcomes", mapj(outcomes)).set("known_hits", mapj(known_hits));
	Json sh = Json::arr();
	for (auto h : shapes) sh.push(hex64(h));
	st.set("shapes", sh);
	st.set("states", (long) states.size());
	Json sts = Json::arr();
	{
		// state hashes are merged by the supervisor; cap what is shipped
		long n = 0;
		for (auto h : states) { if (n++ >= 20000) break; sts.push(hex64(h)); }
	}
	st.set("state_hashes", sts);
	st.set("samples", samples);
	Json um = Json::arr();
	for (auto &u : unmodelled) um.push(u);
	st.set("unmodelled", um);
	printf("STATS %s\n", st.dump().c_str());
	fflush(stdout);
	return 0;
}

static int cmd_replay(int argc, char **argv)
{
	if (argc < 4) return 2;
	Json rep = Json::parse(slurp(argv[2]));
	Plan plan = Plan::from_json(rep.at("plan"));
	Check *chk = find_check(rep.str("property"));
	if (!chk) { fprintf(stderr, "unknown check\n"); return 2; }
	signal(SIGVTALRM, watchdog);
	arm(plan.seed, 0, 60);
	RunResult r = run_plan(plan, *chk, argv[3]);
	bool same = r.has_violation && r.v.cls == rep.str("cls") && hex64(r.fp) == rep.str("fp");
	Json j = result_json(r);
	j.set("reproduced", same).set("expected_cls", rep.str("cls")).set("expected_fp", rep.str("fp"));
	printf("REPLAY %s\n", j.dump().c_str());
	if (getenv("NVSIM_VERBOSE")) {
		printf("--- event tail\n%s--- screen\n%s", r.tail.c_str(), r.screen.c_str());
	}
	return same ? 1 : (r.has_violation ? 3 : 0);
}

static int cmd_gen(int argc, char **argv)
{
	if (argc < 5) return 2;
	Check *chk = find_check(argv[2]);
	if (!chk) return 2;
	int tier = !strcmp(argv[3], "thorough");
	bool grid = argc > 5 && !strcmp(argv[5], "grid");
	Plan p = grid ? chk->grid_plan(atol(argv[4]), tier) : chk->generate(strtoull(argv[4], nullptr, 10), tier);
	printf("%s\n", p.to_json().dump(1).c_str());
	return 0;
}

// run one plan file (not a replay record) and print the result: used for development
static int cmd_plan(int argc, char **argv)
{
	if (argc < 4) return 2;
	Json pj = Json::parse(slurp(argv[2]));
	if (pj.has("plan")) pj = pj.at("plan");
	Plan plan = Plan::from_json(pj);
	Check *chk = find_check(plan.prop);
	if (!chk) return 2;
	signal(SIGVTALRM, watchdog);
	arm(plan.seed, 0, getenv("NVSIM_WATCHDOG") ? atoi(getenv("NVSIM_WATCHDOG")) : 20);
	RunResult r = run_plan(plan, *chk, argv[3]);
	printf("%s\n", result_json(r).dump(getenv("NVSIM_QUIET") ? -1 : 1).c_str());
	if (!getenv("NVSIM_QUIET")) printf("--- event tail\n%s--- screen\n%s", K.tail_log(60).c_str(), K.vt.dump().c_str());
	return r.has_violation ? 1 : 0;
}

int main(int argc, char **argv)
{
	setvbuf(stdout, nullptr, _IOLBF, 0);
#ifdef NVSIM_ASAN
	__sanitizer_set_death_callback(death_note);
#endif
	if (argc < 2) { fprintf(stderr, "usage: nvsim run|grid|replay|gen|plan|list ...\n"); return 2; }
	std::string c = argv[1];
	if (c == "list") {
		for (auto &id : all_checks()) {
			Check *k = find_check(id);
			Json j = Json::obj();
			j.set("id", id).set("level", k->level()).set("rule", k->rule()).set("grid_quick", k->grid_size(0)).set("grid_thorough", k->grid_size(1));
			Json a = Json::arr();
			for (auto &x : k->assumptions()) a.push(x);
			j.set("assumptions", a);
			Json e = Json::arr();
			for (auto &x : k->excluded()) e.push(x);
			j.set("excluded_corners", e);
			printf("%s\n", j.dump().c_str());
		}
		return 0;
	}
	if (c == "run") return cmd_run(argc, argv, false);
	if (c == "grid") return cmd_run(argc, argv, true);
	if (c == "replay") return cmd_replay(argc, argv);
	if (c == "gen") return cmd_gen(argc, argv);
	if (c == "plan") return cmd_plan(argc, argv);
	return 2;
}
