#include "kernel.h"
#include <algorithm>
#include <cerrno>
#include <cstdarg>
#include <cstdio>
#include <cstdlib>
#include <cstring>
#include <fcntl.h>
#include <poll.h>
#include <signal.h>
#include <sys/ioctl.h>
#include <sys/stat.h>
#include <termios.h>
#include <unistd.h>

Kernel K;

static const long long EPOCH_S = 1700000000ll;

const char *outcome_name(int o)
{
	static const char *n[] = {"none", "returned", "exited", "killed_sigpipe", "hang_step", "hang_run",
		"noquit", "deadlock", "violation", "plan_end"};
	return o >= 0 && o < (int) (sizeof n / sizeof n[0]) ? n[o] : "?";
}

static const char *seam_names[S_N] = {"any", "fopen", "fread", "fwrite", "fclose", "ftrunc", "stat", "access",
	"fork", "pwrite", "pread", "poll", "wait", "ttyw", "cpoll"};
const char *seam_name(int s) { return s >= 0 && s < S_N ? seam_names[s] : "?"; }
int seam_id(const std::string &s)
{
	for (int i = 0; i < S_N; i++)
		if (s == seam_names[i]) return i;
	return -1;
}

// ---------------------------------------------------------------- run frame

void Kernel::reset(const Plan &p, KernelClient *c)
{
	plan = &p; client = c; knobs = p.knobs;
	clock_ns = EPOCH_S * 1000000000ll;
	fs.clear();
	for (auto &f : p.files) {
		Inode in;
		in.data = f.data; in.mtime = EPOCH_S + f.mtime; in.ro = f.ro; in.dir = f.dir; in.link = f.link;
		fs[f.path] = in;
	}
	fds.assign(3, SFd());
	for (int i = 0; i < 3; i++) { fds[(size_t) i].kind = 1; fds[(size_t) i].acc = O_RDWR; }
	child_fds.clear(); childmode = false;
	pipes.clear(); children.clear();
	next_pid = 100; last_pid = 0;
	tty_in.clear();
	rows = p.rows; cols = p.cols;
	vt.reset(rows, cols);
	out_stream.clear();
	raw_mode = false; tc_sets = 0;
	memset(handlers, 0, sizeof handlers);
	memset(disp, 0, sizeof disp);
	disk_used = 0;
	for (auto &kv : fs) disk_used += (long) kv.second.data.size();
	cur_step = -1; step = nullptr;
	memset(seam_cnt, 0, sizeof seam_cnt);
	sched = Rng(p.seed ^ 0x5eedull);
	step_calls = run_calls = 0;
	fp = Fnv(); shape = Fnv();
	ring.assign(64, Event{nullptr, 0, 0, 0, 0}); ring_pos = 0;
	probes.clear(); fired.clear(); configured.clear(); opens.clear(); unmodelled.clear();
	outcome = OUT_NONE; exit_status = 0; outcome_note.clear();
	step_budget = 400000; run_budget = 3000000;
	for (auto &s : p.steps)
		for (auto &f : s.faults) configured[f.seam + ":" + f.effect]++;
}

void Kernel::begin_step(int idx, const Step *s)
{
	cur_step = idx; step = s;
	memset(seam_cnt, 0, sizeof seam_cnt);
	step_calls = 0;
	extra_cache = -1;
	next_write_err = 0;
	opens.clear();
	sched = Rng((s && s->sched ? s->sched : (plan->seed * 1000003ull + (unsigned long long) idx)) ^ 0x9e3779b9ull);
	fp.num(0xABCD0000u + (unsigned) idx);
}

void Kernel::end_run(int o, const std::string &note)
{
	outcome = o; outcome_note = note;
	childmode = false;
	longjmp(run_jb, 1);
}

void Kernel::release_memory()
{
	for (void *p : live) free(p);
	live.clear();
}

void Kernel::ev(const char *call, long res, unsigned long long dig)
{
	clock_ns += 1000;
	fp.mem(call, strlen(call)); fp.num((unsigned long long) res); fp.num(dig);
	shape.mem(call, strlen(call)); shape.byte((unsigned char) (res < 0 ? 1 : res == 0 ? 2 : 3));
	ring[ring_pos % ring.size()] = Event{call, res, dig, clock_ns, cur_step};
	ring_pos++;
}

std::string Kernel::tail_log(size_t n) const
{
	std::string o;
	size_t cnt = std::min(n, std::min(ring_pos, ring.size()));
	for (size_t i = ring_pos - cnt; i < ring_pos; i++) {
		const Event &e = ring[i % ring.size()];
		char b[160];
		snprintf(b, sizeof b, "#%zu t=%lld.%06llds step=%d %s -> %ld [%llx]\n", i,
			(long long) (e.t / 1000000000ll - EPOCH_S), (long long) (e.t % 1000000000ll / 1000), e.step,
			e.call ? e.call : "?", e.res, (unsigned long long) e.dig);
		o += b;
	}
	return o;
}

const Fault *Kernel::fault_for(int seam)
{
	if (!step) return nullptr;
	for (auto &f : step->faults)
		if (f.nth == seam_cnt[seam] && seam_id(f.seam) == seam)
			return &f;
	return nullptr;
}

void Kernel::resize(int r, int c)
{
	rows = r < 1 ? 1 : r; cols = c < 1 ? 1 : c;
	vt.resize(rows, cols);
}

void Kernel::deliver(int sig)
{
	if (sig <= 0 || sig > 64) return;
	if (disp[sig] == 2 && handlers[sig]) {
		probe("signal_handler_run");
		handlers[sig](sig);
	}
}

// Accounting common to all simulated system calls.  Returns 1 when a signal
// was delivered "inside" the call so that a blocking poll must fail with EINTR.
int Kernel::tick(int seam, const Fault **fo)
{
	int eintr = 0;
	step_calls++; run_calls++;
	// bounded liveness: a step may take step_budget calls plus an allowance proportional to the size of
	// the buffer it works on (printing or writing n lines, or pushing b bytes through a one-byte pipe, honestly
	// costs O(n) / O(b) calls)
	if (run_calls > run_budget || step_calls > step_budget) {
		if (extra_cache < 0) extra_cache = budget_extra ? budget_extra() : 0;	// (measured once per step, when first needed)
		long extra = extra_cache;
		if (run_calls > run_budget + 4 * extra) end_run(OUT_HANG_RUN, "run syscall budget exceeded");
		if (step_calls > step_budget + extra) end_run(OUT_HANG_STEP, "step syscall budget exceeded");
	}
	const Fault *any = fault_for(S_ANY);
	seam_cnt[S_ANY]++;
	if (any && any->effect == "sigwinch") {
		fired["any:sigwinch"]++;
		resize((int) any->arg, (int) any->arg2);
		probe(seam == S_POLL ? "sigwinch_in_poll" : seam == S_WAIT ? "sigwinch_in_waitpid" : "sigwinch_between_calls");
		ev("SIGWINCH", any->arg * 1000 + any->arg2);
		deliver(SIGWINCH);
		eintr = any->err ? 1 : 2;	// 2: delivered just before the call, which then proceeds
	}
	const Fault *f = seam != S_ANY ? fault_for(seam) : nullptr;
	if (seam != S_ANY) seam_cnt[seam]++;
	if (fo) *fo = f;
	return eintr;
}

std::string Kernel::real(const std::string &path) const
{
	std::string p = path;
	for (int i = 0; i < 8; i++) {
		auto it = fs.find(p);
		if (it == fs.end() || it->second.link.empty()) break;
		p = it->second.link;
	}
	return p;
}

void Kernel::ext_write(const std::string &path0, const std::string &data, long mtime_delta)
{
	// someone else writing through a link changes the file behind it, not the link
	std::string path = real(path0);
	Inode &in = fs[path];
	disk_used += (long) data.size() - (long) in.data.size();
	in.data = data;
	in.mtime = now_s() + mtime_delta;
	ev("ext_write", (long) data.size(), fnv_str(path));
}

void Kernel::ext_remove(const std::string &path)
{
	auto it = fs.find(path);
	if (it != fs.end()) { disk_used -= (long) it->second.data.size(); fs.erase(it); }
	ev("ext_remove", 0, fnv_str(path));
}

void Kernel::tty_out(const char *s, size_t n)
{
	if (out_stream.size() < (32u << 20)) out_stream.append(s, n);
	// OPOST|ONLCR is never cleared by neatvi: LF is sent as CR LF
	size_t i = 0;
	while (i < n) {
		const char *nl = (const char *) memchr(s + i, '\n', n - i);
		size_t j = nl ? (size_t) (nl - s) : n;
		if (j > i) vt.feed(s + i, j - i);
		if (nl) { vt.feed("\r\n", 2); j++; }
		i = j;
	}
}

// ---------------------------------------------------------------- fds and pipes

int Kernel::alloc_fd(std::vector<SFd> &t)
{
	for (size_t i = 0; i < t.size(); i++)
		if (t[i].kind == 0) return (int) i;
	t.push_back(SFd());
	return (int) t.size() - 1;
}

void Kernel::pipe_refs(int p, int *readers, int *writers)
{
	int r = 0, w = 0;
	auto scan = [&](const std::vector<SFd> &t) {
		for (auto &f : t)
			if (f.pipe == p) { if (f.kind == 3) r++; if (f.kind == 4) w++; }
	};
	scan(fds);
	if (childmode) scan(child_fds);
	for (auto &c : children)
		if (!c.exited) scan(c.fds);
	if (readers) *readers = r;
	if (writers) *writers = w;
}

// ---------------------------------------------------------------- the shell catalogue

enum { P_NOTFOUND, P_CAT, P_TRUP, P_TRLOW, P_SORT, P_HEAD, P_TRUE, P_FALSE, P_ECHO, P_WCL, P_REV, P_SEQ, P_SED_DUP, P_TAC, P_CATERR, P_UNIQ };

static std::string trim(const std::string &s)
{
	size_t a = 0, b = s.size();
	while (a < b && (s[a] == ' ' || s[a] == '\t')) a++;
	while (b > a && (s[b - 1] == ' ' || s[b - 1] == '\t')) b--;
	return s.substr(a, b - a);
}

void Kernel::classify(SChild &c)
{
	std::string cmd = trim(c.cmd);
	c.delay = 0;
	// "sleep N; cmd": N poll ticks of nothing before the command starts
	if (starts_with(cmd, "sleep ")) {
		size_t semi = cmd.find(';');
		long n = atol(cmd.c_str() + 6);
		c.delay = n < 0 ? 0 : n > 50 ? 50 : n;
		cmd = semi == std::string::npos ? "true" : trim(cmd.substr(semi + 1));
	}
	c.consume = 0; c.prog = P_NOTFOUND;
	if (cmd == "cat") { c.prog = P_CAT; c.consume = 2; }
	else if (cmd == "tr a-z A-Z") { c.prog = P_TRUP; c.consume = 2; }
	else if (cmd == "tr A-Z a-z") { c.prog = P_TRLOW; c.consume = 2; }
	else if (cmd == "sort") { c.prog = P_SORT; c.consume = 1; }
	else if (cmd == "uniq") { c.prog = P_UNIQ; c.consume = 1; }
	else if (cmd == "tac") { c.prog = P_TAC; c.consume = 1; }
	else if (cmd == "rev") { c.prog = P_REV; c.consume = 1; }
	else if (cmd == "wc -l") { c.prog = P_WCL; c.consume = 1; }
	else if (cmd == "sed p") { c.prog = P_SED_DUP; c.consume = 1; }
	else if (starts_with(cmd, "head -")) { c.prog = P_HEAD; c.consume = 3; c.headn = atol(cmd.c_str() + 6); if (c.headn < 0) c.headn = 0; }
	else if (cmd == "true" || cmd == ":") { c.prog = P_TRUE; }
	else if (cmd == "false") { c.prog = P_FALSE; c.status = 1; }
	else if (starts_with(cmd, "echo ")) { c.prog = P_ECHO; c.arg = cmd.substr(5); c.out = c.arg + "\n"; }
	else if (cmd == "echo") { c.prog = P_ECHO; c.out = "\n"; }
	else if (starts_with(cmd, "seq ")) {
		c.prog = P_SEQ;
		long n = atol(cmd.c_str() + 4);
		if (n > 200000) n = 200000;
		for (long i = 1; i <= n; i++) { c.out += std::to_string(i); c.out += '\n'; }
	} else if (cmd == "cat >&2") { c.prog = P_CATERR; c.consume = 2; }
	else {
		std::string w = cmd.substr(0, cmd.find_first_of(" \t"));
		c.err = "sh: 1: " + w + ": not found\n";
		c.status = 127;
	}
	if (c.consume == 0) c.in_done = true;
	if (c.prog == P_HEAD && c.headn == 0) c.in_done = true;
}

static std::string run_program(SChild &c, const std::string &in)
{
	std::vector<std::string> ln = split_lines(in);
	std::string o;
	switch (c.prog) {
	case P_SORT: std::stable_sort(ln.begin(), ln.end()); return join_lines(ln);
	case P_UNIQ: { std::vector<std::string> u; for (auto &l : ln) if (u.empty() || u.back() != l) u.push_back(l); return join_lines(u); }
	case P_TAC: std::reverse(ln.begin(), ln.end()); return join_lines(ln);
	case P_REV:	// by characters, as rev(1) does in a UTF-8 locale (a byte-wise reversal would hand the editor invalid UTF-8)
		for (auto &l : ln) {
			std::string o2;
			size_t i = l.size();
			while (i > 0) {
				size_t j = i - 1;
				while (j > 0 && ((unsigned char) l[j] & 0xc0) == 0x80) j--;
				o2.append(l, j, i - j);
				i = j;
			}
			l = o2;
		}
		return join_lines(ln);
	case P_WCL: { long n = 0; for (char ch : in) n += ch == '\n'; return std::to_string(n) + "\n"; }
	case P_SED_DUP: for (auto &l : ln) { o += l; o += '\n'; o += l; o += '\n'; } return o;
	default: return in;
	}
}

// what a catalogue command writes to its stdout+stderr pipe when fed `in` and left to finish:
// used by the reference models (the simulated children produce exactly this, in scheduled pieces)
std::string catalogue_output(const std::string &cmd, const std::string &in)
{
	SChild c;
	c.cmd = cmd;
	K.classify(c);
	std::string out = c.err + c.out;
	if (c.consume == 2) {
		std::string o = in;
		if (c.prog == P_TRUP) for (auto &ch : o) ch = (char) (ch >= 'a' && ch <= 'z' ? ch - 32 : ch);
		if (c.prog == P_TRLOW) for (auto &ch : o) ch = (char) (ch >= 'A' && ch <= 'Z' ? ch + 32 : ch);
		out += o;
	} else if (c.consume == 1) out += run_program(c, in);
	else if (c.consume == 3) {
		long n = 0;
		for (char ch : in) { if (n >= c.headn) break; out += ch; if (ch == '\n') n++; }
	}
	return out;
}

void Kernel::child_exit(SChild &c, int status)
{
	c.exited = true; c.status = status;
	for (auto &f : c.fds) f = SFd();
	ev("child_exit", status, (unsigned long long) c.pid);
}

bool Kernel::child_can_progress(SChild &c)
{
	if (c.exited) return false;
	if (c.delay > 0) return true;
	SFd &in = c.fds[0], &out = c.fds[1];
	const std::string &pend = !c.err.empty() ? c.err : c.out;
	SFd &dst = !c.err.empty() ? c.fds[2] : out;
	if (!pend.empty()) {
		if (dst.kind != 4) return true;		// tty or closed: never blocks
		int r; pipe_refs(dst.pipe, &r, nullptr);
		if (r == 0) return true;			// SIGPIPE will end it
		return (long) pipes[(size_t) dst.pipe].buf.size() < pipes[(size_t) dst.pipe].cap;
	}
	if (!c.in_done) {
		if (in.kind != 3) return true;			// tty/closed: EOF at once
		int w; pipe_refs(in.pipe, nullptr, &w);
		return !pipes[(size_t) in.pipe].buf.empty() || w == 0;
	}
	return true;	// finished: exits
}

bool Kernel::any_child_can_progress()
{
	for (auto &c : children)
		if (child_can_progress(c)) return true;
	return false;
}

// One scheduling quantum of one child.
void Kernel::child_run(SChild &c)
{
	if (c.delay > 0) { c.delay--; clock_ns += 200000000ll; ev("child_sleep", c.delay, (unsigned long long) c.pid); return; }
	long pace = knobs.child_pace < 1 ? 1 : knobs.child_pace;
	bool is_err = !c.err.empty();
	std::string &pend = is_err ? c.err : c.out;
	if (!pend.empty()) {
		SFd &dst = is_err ? c.fds[2] : c.fds[1];
		long k = sched.range(1, pace);
		if (k > (long) pend.size()) k = (long) pend.size();
		if (dst.kind == 4) {
			int r; pipe_refs(dst.pipe, &r, nullptr);
			if (r == 0) { probe("child_sigpipe"); child_exit(c, 141); return; }
			SPipe &p = pipes[(size_t) dst.pipe];
			long room = p.cap - (long) p.buf.size();
			if (k > room) k = room;
			if (k <= 0) return;
			p.buf.append(pend, 0, (size_t) k);
			if ((long) p.buf.size() >= p.cap) probe("pipe_full_child_side");
		} else if (dst.kind == 1) {
			tty_out(pend.data(), (size_t) k);
		}
		pend.erase(0, (size_t) k);
		ev("child_write", k, (unsigned long long) c.pid);
		return;
	}
	if (!c.in_done) {
		SFd &in = c.fds[0];
		std::string got;
		bool eof = false;
		if (in.kind == 3) {
			SPipe &p = pipes[(size_t) in.pipe];
			if (!p.buf.empty()) {
				long k = sched.range(1, pace);
				if (k > (long) p.buf.size()) k = (long) p.buf.size();
				got = p.buf.substr(0, (size_t) k);
				p.buf.erase(0, (size_t) k);
			} else eof = true;	// only scheduled when no writers are left
		} else eof = true;		// reading the tty: the user types ^D
		ev("child_read", (long) got.size(), (unsigned long long) c.pid);
		if (c.consume == 2) {
			std::string o = got;
			if (c.prog == P_TRUP) for (auto &ch : o) ch = (char) (ch >= 'a' && ch <= 'z' ? ch - 32 : ch);
			if (c.prog == P_TRLOW) for (auto &ch : o) ch = (char) (ch >= 'A' && ch <= 'Z' ? ch + 32 : ch);
			if (c.prog == P_CATERR) c.err += o; else c.out += o;
		} else if (c.consume == 1) {
			c.inacc += got;
		} else if (c.consume == 3) {
			for (char ch : got) {
				if (c.nlines >= c.headn) break;
				c.out += ch;
				if (ch == '\n') c.nlines++;
			}
			if (c.nlines >= c.headn) { c.in_done = true; probe("child_stopped_reading_early"); }
		}
		if (eof) {
			c.in_done = true;
			if (c.consume == 1) c.out += run_program(c, c.inacc);
		}
		return;
	}
	{
		SFd &in = c.fds[0];
		if (in.kind == 3 && !pipes[(size_t) in.pipe].buf.empty()) probe("child_exit_with_unread_input");
	}
	child_exit(c, c.status);
}

void Kernel::child_step()
{
	std::vector<size_t> run;
	for (size_t i = 0; i < children.size(); i++)
		if (child_can_progress(children[i])) run.push_back(i);
	if (run.empty()) return;
	child_run(children[run[sched.below(run.size())]]);
}

// ---------------------------------------------------------------- system calls

extern "C" {

jmp_buf sim_fork_jb;

static SFd *getfd(int fd)
{
	std::vector<SFd> &t = K.tab();
	if (fd < 0 || fd >= (int) t.size() || t[(size_t) fd].kind == 0) return nullptr;
	return &t[(size_t) fd];
}

int sim_open(const char *path, int flags, ...)
{
	const Fault *f;
	K.tick(S_FOPEN, &f);
	std::string p = path ? path : "";
	K.opens.push_back(p);
	if (K.real(p) != p) { K.probe("open_through_symlink"); p = K.real(p); }
	int acc = flags & O_ACCMODE;
	if (f && f->effect == "err") {
		K.fired["fopen:err"]++;
		K.ev("open", -f->err, fnv_str(p));
		errno = f->err;
		return -1;
	}
	auto it = K.fs.find(p);
	if (p.empty()) { K.ev("open", -ENOENT, 0); errno = ENOENT; return -1; }
	if (it == K.fs.end()) {
		if (!(flags & O_CREAT)) { K.ev("open", -ENOENT, fnv_str(p)); errno = ENOENT; return -1; }
		Inode in; in.mtime = K.now_s();
		it = K.fs.insert({p, in}).first;
		K.probe("file_created");
	} else {
		Inode &in = it->second;
		if (in.dir && acc != O_RDONLY) { K.ev("open", -EISDIR, fnv_str(p)); errno = EISDIR; return -1; }
		if (in.ro && acc != O_RDONLY) { K.ev("open", -EACCES, fnv_str(p)); errno = EACCES; return -1; }
		if ((flags & O_TRUNC) && acc != O_RDONLY) {
			K.disk_used -= (long) in.data.size();
			in.data.clear(); in.mtime = K.now_s();
			K.probe("open_truncated");
		}
	}
	std::vector<SFd> &t = K.tab();
	int fd = K.alloc_fd(t);
	SFd &d = t[(size_t) fd];
	d = SFd();
	d.kind = 2; d.path = p; d.off = 0; d.acc = acc; d.append = (flags & O_APPEND) != 0;
	K.ev("open", fd, fnv_str(p) ^ (unsigned long long) flags);
	return fd;
}

int sim_close(int fd)
{
	SFd *d = getfd(fd);
	if (!d) { K.tick(S_ANY, nullptr); K.ev("close", -EBADF, (unsigned long long) fd); errno = EBADF; return -1; }
	if (d->kind == 2 && !K.childmode) {
		const Fault *f;
		K.tick(S_FCLOSE, &f);
		int wr = d->acc != O_RDONLY;
		*d = SFd();
		if (f && f->effect == "err" && wr) {
			K.fired["fclose:err"]++;
			K.ev("close", -f->err, (unsigned long long) fd);
			errno = f->err;
			return -1;
		}
		K.ev("close", 0, (unsigned long long) fd);
		return 0;
	}
	K.tick(S_ANY, nullptr);
	*d = SFd();
	K.ev("close", 0, (unsigned long long) fd);
	return 0;
}

long sim_read(int fd, void *buf, unsigned long n)
{
	SFd *d = getfd(fd);
	if (!d) { K.tick(S_ANY, nullptr); K.ev("read", -EBADF, 0); errno = EBADF; return -1; }
	if (d->kind == 1) {
		K.tick(S_ANY, nullptr);
		int guard = 0;
		while (K.tty_in.empty()) {
			if (++guard > 2) K.end_run(OUT_PLAN_END, "no input supplied");
			K.client->need_input();
		}
		unsigned long k = 0;
		char *b = (char *) buf;
		while (k < n && !K.tty_in.empty()) { b[k++] = (char) K.tty_in.front(); K.tty_in.pop_front(); }
		K.ev("read_tty", (long) k, k ? (unsigned char) b[0] : 0);
		return (long) k;
	}
	if (d->kind == 2) {
		const Fault *f;
		K.tick(S_FREAD, &f);
		auto it = K.fs.find(d->path);
		if (f && f->effect == "err") {
			K.fired["fread:err"]++;
			K.ev("read", -f->err, 0);
			errno = f->err;
			return -1;
		}
		if (it == K.fs.end()) { K.ev("read", 0, 0); return 0; }
		if (it->second.dir) { K.ev("read", -EISDIR, 0); errno = EISDIR; return -1; }
		if (d->acc == O_WRONLY) { K.ev("read", -EBADF, 0); errno = EBADF; return -1; }
		const std::string &data = it->second.data;
		long avail = (long) data.size() - d->off;
		if (avail <= 0) { K.ev("read", 0, 0); return 0; }
		long k = (long) n < avail ? (long) n : avail;
		switch (K.knobs.read_policy) {
		case 1: k = 1; break;
		case 2: k = K.sched.range(1, k); break;
		case 3: if (K.knobs.read_n > 0 && K.knobs.read_n < k) k = K.knobs.read_n; break;
		}
		if (f && f->effect == "short" && f->arg > 0 && f->arg < k) { k = f->arg; K.fired["fread:short"]++; }
		if (k < (long) n && k < avail) {
			K.probe("short_read_served");
			// a transfer the simulator itself cut short makes progress and is bounded by the file size:
			// it does not count against the editor's syscall budgets (bounded liveness)
			if (K.step_calls > 0) K.step_calls--;
			if (K.run_calls > 0) K.run_calls--;
		}
		memcpy(buf, data.data() + d->off, (size_t) k);
		d->off += k;
		K.ev("read", k, 0);
		return k;
	}
	if (d->kind == 3) {
		K.tick(S_PREAD, nullptr);
		SPipe &p = K.pipes[(size_t) d->pipe];
		for (;;) {
			if (!p.buf.empty()) {
				long k = (long) n < (long) p.buf.size() ? (long) n : (long) p.buf.size();
				memcpy(buf, p.buf.data(), (size_t) k);
				p.buf.erase(0, (size_t) k);
				K.ev("read_pipe", k, 0);
				if (K.step_calls > 0) K.step_calls--;
				if (K.run_calls > 0) K.run_calls--;
				return k;
			}
			int w; K.pipe_refs(d->pipe, nullptr, &w);
			if (w == 0) { K.ev("read_pipe", 0, 0); return 0; }
			if (d->nonblock) { K.ev("read_pipe", -EAGAIN, 0); errno = EAGAIN; return -1; }
			if (!K.any_child_can_progress()) K.end_run(OUT_DEADLOCK, "read on a pipe nobody will ever write");
			K.child_step();
			K.tick(S_ANY, nullptr);
		}
	}
	K.tick(S_ANY, nullptr);
	K.ev("read", -EBADF, 0);
	errno = EBADF;
	return -1;
}

long sim_write(int fd, const void *buf, unsigned long n)
{
	SFd *d = getfd(fd);
	if (!d) { K.tick(S_ANY, nullptr); K.ev("write", -EBADF, 0); errno = EBADF; return -1; }
	if (d->kind == 1) {
		K.tick(S_TTYW, nullptr);
		K.tty_out((const char *) buf, n);
		Fnv h; h.mem(buf, n);
		K.ev("write_tty", (long) n, h.h);
		return (long) n;
	}
	if (d->kind == 2) {
		const Fault *f;
		K.tick(S_FWRITE, &f);
		if (d->acc == O_RDONLY) { K.ev("write", -EBADF, 0); errno = EBADF; return -1; }
		if (K.next_write_err) {
			int e = K.next_write_err;
			K.next_write_err = 0;
			K.fired["fwrite:then_err"]++;
			K.ev("write", -e, 0);
			errno = e;
			return -1;
		}
		if (f && f->effect == "err") {
			K.fired["fwrite:err"]++;
			K.ev("write", -f->err, 0);
			errno = f->err;
			return -1;
		}
		auto it = K.fs.find(d->path);
		if (it == K.fs.end()) {	// unlinked while open: bytes go nowhere
			K.ev("write", (long) n, 0);
			return (long) n;
		}
		Inode &in = it->second;
		long k = (long) n;
		if (n == 0) { K.ev("write", 0, 0); return 0; }
		switch (K.knobs.write_policy) {
		case 1: k = 1; break;
		case 2: k = K.sched.range(1, k); break;
		case 3: if (K.knobs.write_n > 0 && K.knobs.write_n < k) k = K.knobs.write_n; break;
		case 4: if (k > 1) k = k - 1; break;
		}
		if (f && (f->effect == "short" || f->effect == "short_err")) {
			long a = f->arg < 0 ? (long) n + f->arg : f->arg;	// negative: n - |arg|
			if (a >= 1 && a < (long) n) { k = a; K.fired[std::string("fwrite:") + f->effect]++; }
			else if (f->effect == "short_err" && a <= 0) {
				K.fired["fwrite:short_err"]++;
				K.ev("write", -f->err, 0);
				errno = f->err;
				return -1;
			}
		}
		if (d->append) d->off = (long) in.data.size();
		// disk capacity: bytes that extend the file need room
		if (K.knobs.disk_cap >= 0) {
			long grow = d->off + k - (long) in.data.size();
			if (grow > 0) {
				long room = K.knobs.disk_cap - K.disk_used;
				if (room <= 0) {
					K.probe("disk_full_error");
					K.ev("write", -ENOSPC, 0);
					errno = ENOSPC;
					return -1;
				}
				if (grow > room) { k -= grow - room; K.probe("disk_full_short"); }
			}
		}
		if (k < (long) n) {
			K.probe("short_write_served");
			if (k > 0 && K.step_calls > 0) K.step_calls--;	// see the short read above
			if (k > 0 && K.run_calls > 0) K.run_calls--;
		}
		if ((long) in.data.size() < d->off) in.data.resize((size_t) d->off, '\0');
		long over = d->off + k - (long) in.data.size();
		if (over > 0) { in.data.resize((size_t) (d->off + k)); K.disk_used += over; }
		memcpy(&in.data[(size_t) d->off], buf, (size_t) k);
		d->off += k;
		in.mtime = K.now_s();
		K.ev("write", k, 0);
		// a short-then-error fault makes the next file write of this step fail
		if (f && f->effect == "short_err" && k < (long) n)
			K.next_write_err = f->err ? f->err : ENOSPC;
		return k;
	}
	if (d->kind == 4) {
		const Fault *f;
		K.tick(S_PWRITE, &f);
		SPipe &p = K.pipes[(size_t) d->pipe];
		long done = 0;		// a blocking write returns only when everything is in the pipe
		for (;;) {
			int r; K.pipe_refs(d->pipe, &r, nullptr);
			if (r == 0) {
				if (done > 0) { K.ev("write_pipe", done, 0); return done; }
				K.probe("sigpipe_raised");
				K.ev("write_pipe", -EPIPE, 0);
				if (K.disp[SIGPIPE] == 0) K.end_run(OUT_KILLED_SIGPIPE, "write to a pipe with no reader; SIGPIPE disposition is default");
				if (K.disp[SIGPIPE] == 2) K.deliver(SIGPIPE);
				errno = EPIPE;
				return -1;
			}
			long room = p.cap - (long) p.buf.size();
			if (room > 0) {
				long left = (long) n - done;
				long k = left < room ? left : room;
				if (k < left) K.probe("pipe_partial_write");
				p.buf.append((const char *) buf + done, (size_t) k);
				done += k;
				if (d->nonblock || done == (long) n) {
					K.ev("write_pipe", done, 0);
					// bytes moved through a pipe are progress bounded by the data (capacities go down to one
					// byte): they do not count against the syscall budgets
					if (K.step_calls > 0) K.step_calls--;
					if (K.run_calls > 0) K.run_calls--;
					return done;
				}
				K.probe("blocking_pipe_write_waits");
			}
			K.probe("pipe_full");
			if (d->nonblock) { if (done > 0) { K.ev("write_pipe", done, 0); return done; } K.ev("write_pipe", -EAGAIN, 0); errno = EAGAIN; return -1; }
			if (!K.any_child_can_progress()) K.end_run(OUT_DEADLOCK, "write on a full pipe nobody will ever read");
			K.child_step();
			K.tick(S_ANY, nullptr);
		}
	}
	K.tick(S_ANY, nullptr);
	K.ev("write", -EBADF, 0);
	errno = EBADF;
	return -1;
}

static int stat_impl(const char *path, struct stat *st, bool follow)
{
	const Fault *f;
	K.tick(S_STAT, &f);
	std::string p = path ? path : "";
	if (follow && K.real(p) != p) { K.probe("stat_through_symlink"); p = K.real(p); }
	auto it = K.fs.find(p);
	if (f && f->effect == "err") { K.fired["stat:err"]++; K.ev("stat", -f->err, fnv_str(p)); errno = f->err; return -1; }
	if (it == K.fs.end()) { K.ev("stat", -ENOENT, fnv_str(p)); errno = ENOENT; return -1; }
	memset(st, 0, sizeof *st);
	st->st_mtime = it->second.mtime;
	st->st_size = (off_t) it->second.data.size();
	st->st_mode = it->second.dir ? (S_IFDIR | 0755) : (S_IFREG | (it->second.ro ? 0444 : 0644));
	if (!it->second.link.empty()) { st->st_mode = S_IFLNK | 0777; st->st_size = (off_t) it->second.link.size(); }
	K.ev(follow ? "stat" : "lstat", 0, fnv_str(p) ^ (unsigned long long) it->second.mtime);
	return 0;
}

int sim_stat(const char *path, struct stat *st) { return stat_impl(path, st, true); }

int sim_fstat(int fd, struct stat *st)
{
	SFd *d = getfd(fd);
	if (!d || d->kind != 2) { K.tick(S_ANY, nullptr); errno = EBADF; return -1; }
	return sim_stat(d->path.c_str(), st);
}

int sim_access(const char *path, int mode)
{
	K.tick(S_ACCESS, nullptr);
	std::string p = K.real(path ? path : "");
	auto it = K.fs.find(p);
	int ok = it != K.fs.end() && !((mode & W_OK) && it->second.ro);
	K.ev("access", ok ? 0 : -ENOENT, fnv_str(p));
	if (!ok) { errno = ENOENT; return -1; }
	return 0;
}

int sim_ftruncate(int fd, long len)
{
	const Fault *f;
	K.tick(S_FTRUNC, &f);
	SFd *d = getfd(fd);
	if (!d || d->kind != 2 || d->acc == O_RDONLY) { K.ev("ftruncate", -EBADF, 0); errno = EBADF; return -1; }
	if (f && f->effect == "err") { K.fired["ftrunc:err"]++; K.ev("ftruncate", -f->err, 0); errno = f->err; return -1; }
	auto it = K.fs.find(d->path);
	if (it != K.fs.end()) {
		long old = (long) it->second.data.size();
		if (len < old) K.probe("ftruncate_shortened");
		it->second.data.resize((size_t) (len < 0 ? 0 : len), '\0');
		K.disk_used += (long) it->second.data.size() - old;
		it->second.mtime = K.now_s();
	}
	K.ev("ftruncate", 0, (unsigned long long) len);
	return 0;
}

long sim_lseek(int fd, long off, int whence)
{
	K.tick(S_ANY, nullptr);
	SFd *d = getfd(fd);
	if (!d || d->kind != 2) { errno = ESPIPE; return -1; }
	auto it = K.fs.find(d->path);
	long size = it != K.fs.end() ? (long) it->second.data.size() : 0;
	long n = whence == SEEK_SET ? off : whence == SEEK_CUR ? d->off + off : size + off;
	if (n < 0) { errno = EINVAL; return -1; }
	d->off = n;
	K.ev("lseek", n, 0);
	return n;
}

int sim_fsync(int fd) { K.tick(S_ANY, nullptr); K.ev("fsync", 0, (unsigned long long) fd); return getfd(fd) ? 0 : -1; }

int sim_rename(const char *a, const char *b)
{
	K.tick(S_ANY, nullptr);
	auto it = K.fs.find(a ? a : "");
	if (it == K.fs.end()) { errno = ENOENT; K.ev("rename", -ENOENT, 0); return -1; }
	Inode in = it->second;
	K.fs.erase(it);
	K.fs[b ? b : ""] = in;
	K.ev("rename", 0, fnv_str(b ? b : ""));
	return 0;
}

int sim_unlink(const char *a)
{
	K.tick(S_ANY, nullptr);
	auto it = K.fs.find(a ? a : "");
	if (it == K.fs.end()) { errno = ENOENT; K.ev("unlink", -ENOENT, 0); return -1; }
	K.disk_used -= (long) it->second.data.size();
	K.fs.erase(it);
	K.ev("unlink", 0, fnv_str(a));
	return 0;
}

int sim_pipe(int pfd[2])
{
	K.tick(S_ANY, nullptr);
	SPipe p; p.cap = K.knobs.pipe_cap < 1 ? 1 : K.knobs.pipe_cap;
	K.pipes.push_back(p);
	int id = (int) K.pipes.size() - 1;
	std::vector<SFd> &t = K.tab();
	int r = K.alloc_fd(t);
	t[(size_t) r] = SFd(); t[(size_t) r].kind = 3; t[(size_t) r].pipe = id;
	int w = K.alloc_fd(t);
	t[(size_t) w] = SFd(); t[(size_t) w].kind = 4; t[(size_t) w].pipe = id;
	pfd[0] = r; pfd[1] = w;
	K.ev("pipe", id, (unsigned long long) (r * 100 + w));
	return 0;
}

int sim_dup(int fd)
{
	K.tick(S_ANY, nullptr);
	SFd *d = getfd(fd);
	if (!d) { K.ev("dup", -EBADF, 0); errno = EBADF; return -1; }
	SFd copy = *d;
	std::vector<SFd> &t = K.tab();
	int n = K.alloc_fd(t);
	t[(size_t) n] = copy;
	K.ev("dup", n, (unsigned long long) fd);
	return n;
}

int sim_dup2(int fd, int nfd)
{
	K.tick(S_ANY, nullptr);
	SFd *d = getfd(fd);
	if (!d || nfd < 0 || nfd > 1023) { errno = EBADF; return -1; }
	SFd copy = *d;
	std::vector<SFd> &t = K.tab();
	if ((int) t.size() <= nfd) t.resize((size_t) nfd + 1);
	t[(size_t) nfd] = copy;
	K.ev("dup2", nfd, (unsigned long long) fd);
	return nfd;
}

int sim_fcntl(int fd, int cmd, ...)
{
	va_list ap;
	va_start(ap, cmd);
	long arg = va_arg(ap, long);
	va_end(ap);
	K.tick(S_ANY, nullptr);
	SFd *d = getfd(fd);
	if (!d) { K.ev("fcntl", -EBADF, (unsigned long long) cmd); errno = EBADF; return -1; }
	if (cmd == F_GETFL) { K.ev("fcntl_getfl", 0, 0); return d->acc | (d->nonblock ? O_NONBLOCK : 0) | (d->append ? O_APPEND : 0); }
	if (cmd == F_SETFL) { d->nonblock = (arg & O_NONBLOCK) != 0; K.ev("fcntl_setfl", 0, (unsigned long long) d->nonblock); return 0; }
	K.ev("fcntl", 0, (unsigned long long) cmd);
	return 0;
}

int sim_ioctl(int fd, unsigned long req, ...)
{
	va_list ap;
	va_start(ap, req);
	void *arg = va_arg(ap, void *);
	va_end(ap);
	K.tick(S_ANY, nullptr);
	SFd *d = getfd(fd);
	if (!d || d->kind != 1) { K.ev("ioctl", -ENOTTY, 0); errno = ENOTTY; return -1; }
	if (req == TIOCGWINSZ) {
		struct winsize *w = (struct winsize *) arg;
		memset(w, 0, sizeof *w);
		w->ws_row = (unsigned short) K.rows;
		w->ws_col = (unsigned short) K.cols;
		K.ev("ioctl_winsz", K.rows * 1000 + K.cols, 0);
		return 0;
	}
	K.ev("ioctl", -EINVAL, req);
	errno = EINVAL;
	return -1;
}

int sim_isatty(int fd)
{
	SFd *d = getfd(fd);
	K.tick(S_ANY, nullptr);
	K.ev("isatty", d && d->kind == 1, 0);
	return d && d->kind == 1;
}

int sim_tcgetattr(int fd, struct termios *t)
{
	K.tick(S_ANY, nullptr);
	memset(t, 0, sizeof *t);
	t->c_lflag = ICANON | ISIG | ECHO;
	t->c_oflag = OPOST | ONLCR;
	K.ev("tcgetattr", 0, 0);
	return getfd(fd) && getfd(fd)->kind == 1 ? 0 : -1;
}

int sim_tcsetattr(int fd, int act, const struct termios *t)
{
	K.tick(S_ANY, nullptr);
	(void) fd; (void) act;
	K.raw_mode = !(t->c_lflag & ICANON);
	K.tc_sets++;
	K.ev("tcsetattr", K.raw_mode, 0);
	return 0;
}

char *sim_getenv(const char *name)
{
	if (K.plan)
		for (auto &kv : K.plan->env)
			if (kv.first == name) return (char *) kv.second.c_str();
	return nullptr;
}

typedef void (*sighandler)(int);
sighandler sim_signal(int sig, sighandler h)
{
	K.tick(S_ANY, nullptr);
	if (sig <= 0 || sig > 64) return SIG_ERR;
	sighandler old = K.disp[sig] == 2 ? K.handlers[sig] : K.disp[sig] == 1 ? SIG_IGN : SIG_DFL;
	if (h == SIG_DFL) K.disp[sig] = 0;
	else if (h == SIG_IGN) K.disp[sig] = 1;
	else { K.disp[sig] = 2; K.handlers[sig] = h; }
	K.ev("signal", sig, (unsigned long long) K.disp[sig]);
	return old;
}

int sim_sigaction(int sig, const struct sigaction *act, struct sigaction *old)
{
	if (old) memset(old, 0, sizeof *old);
	if (act) sim_signal(sig, act->sa_handler);
	return 0;
}

int sim_kill(int pid, int sig)
{
	K.tick(S_ANY, nullptr);
	K.ev("kill", pid, (unsigned long long) sig);
	if (pid == 0) {		// ^Z: stopped and continued at once by the simulated job control
		K.probe("suspend");
		return 0;
	}
	for (auto &c : K.children)
		if (c.pid == pid && !c.exited) {
			if (sig == SIGINT || sig == SIGTERM || sig == SIGKILL) { K.probe("child_killed"); K.child_exit(c, 128 + sig); }
			return 0;
		}
	errno = ESRCH;
	return -1;
}

int sim_fork_begin(void)
{
	const Fault *f;
	K.tick(S_FORK, &f);
	if (f && f->effect == "fail") {
		K.fired["fork:fail"]++;
		K.probe("fork_failed");
		K.ev("fork", -EAGAIN, 0);
		errno = EAGAIN;
		return 1;
	}
	K.child_fds = K.fds;
	K.childmode = true;
	return 0;
}

int sim_fork_parent(void)
{
	return K.last_pid;
}

int sim_execvp(const char *file, char *const argv[])
{
	if (!K.childmode) {
		K.unmodelled.push_back("execvp outside a fork child");
		errno = ENOSYS;
		return -1;
	}
	SChild c;
	c.pid = K.next_pid++;
	c.fds = K.child_fds;
	if (c.fds.size() < 3) c.fds.resize(3);
	if (file && !strcmp(file, "/bin/sh") && argv[0] && argv[1] && !strcmp(argv[1], "-c") && argv[2])
		c.cmd = argv[2];
	else
		c.cmd = file ? file : "";
	K.classify(c);
	K.children.push_back(c);
	K.last_pid = c.pid;
	K.childmode = false;
	K.child_fds.clear();
	Fnv h; h.str(c.cmd); h.num((unsigned long long) c.fds[0].kind * 100 + (unsigned long long) c.fds[1].kind * 10 + (unsigned long long) c.fds[2].kind);
	K.ev("fork_exec", c.pid, h.h);
	longjmp(sim_fork_jb, 1);
}

void sim_exit(int status)
{
	if (K.childmode) {	// exec failed in the child branch: the child is gone
		K.childmode = false;
		K.child_fds.clear();
		SChild c; c.pid = K.next_pid++; c.fds.resize(3); c.exited = true; c.status = status;
		K.children.push_back(c);
		K.last_pid = c.pid;
		longjmp(sim_fork_jb, 1);
	}
	K.exit_status = status;
	K.ev("exit", status, 0);
	K.end_run(OUT_EXITED, "");
}

int sim_waitpid(int pid, int *status, int opts)
{
	K.tick(S_WAIT, nullptr);
	(void) opts;
	for (auto &c : K.children) {
		if (c.pid != pid) continue;
		long guard = 0;
		while (!c.exited) {
			if (!K.child_can_progress(c)) {
				// the child waits for something only the editor could provide
				K.end_run(OUT_DEADLOCK, "waitpid on a child that is blocked forever (cmd: " + c.cmd + ")");
			}
			K.child_run(c);
			K.tick(S_ANY, nullptr);
			if (++guard > 10000000) K.end_run(OUT_HANG_RUN, "child never exits");
		}
		if (status) *status = c.status << 8;
		K.ev("waitpid", pid, (unsigned long long) c.status);
		return pid;
	}
	K.ev("waitpid", -ECHILD, 0);
	errno = ECHILD;
	return -1;
}

int sim_poll(struct pollfd *pf, unsigned long n, int timeout)
{
	const Fault *f;
	int eintr = K.tick(S_POLL, &f);
	if (eintr == 2) {
		// a signal that arrives as the editor is about to block for terminal input lands inside the
		// blocking poll for all practical purposes (the race window before it is a few instructions)
		bool blocks = timeout < 0 && K.tty_in.empty();
		eintr = blocks ? 1 : 0;
	}
	if (f && f->effect == "eintr") { K.fired["poll:eintr"]++; eintr = 1; }
	if (n > 1) {	// the child-process loop's poll (the terminal prompt polls one fd)
		const Fault *g = K.fault_for(S_CPOLL);
		K.seam_cnt[S_CPOLL]++;
		if (g && g->effect == "eintr") { K.fired["cpoll:eintr"]++; eintr = 1; }
	}
	if (eintr) {
		K.probe("poll_eintr");
		K.ev("poll", -EINTR, 0);
		errno = EINTR;
		return -1;
	}
	bool only_tty = true, has_tty = false;
	for (unsigned long i = 0; i < n; i++) {
		if (pf[i].fd < 0) continue;
		SFd *d = getfd(pf[i].fd);
		if (d && d->kind == 1) has_tty = true; else only_tty = false;
	}
	// a stall: a timeout tick passes although a child could have progressed
	if (!only_tty && timeout >= 0 && K.knobs.stall_pct > 0 && K.sched.chance(K.knobs.stall_pct, 100) && K.any_child_can_progress()) {
		bool ready = false;
		for (unsigned long i = 0; i < n && !ready; i++) {
			SFd *d = pf[i].fd >= 0 ? getfd(pf[i].fd) : nullptr;
			if (!d) continue;
			if (d->kind == 3 && (pf[i].events & POLLIN) && !K.pipes[(size_t) d->pipe].buf.empty()) ready = true;
			if (d->kind == 4 && (pf[i].events & POLLOUT)) ready = true;
			if (d->kind == 1 && (pf[i].events & POLLIN) && !K.tty_in.empty()) ready = true;
		}
		if (!ready) {
			for (unsigned long i = 0; i < n; i++) pf[i].revents = 0;
			K.clock_ns += (long long) timeout * 1000000ll;
			K.probe("poll_timeout_expired");
			K.ev("poll", 0, 1);
			return 0;
		}
	}
	// the children may have been scheduled before the editor's poll looks at the pipes
	if (!only_tty && K.sched.chance(1, 2)) {
		long pre = K.sched.range(1, 4);
		while (pre-- > 0 && K.any_child_can_progress()) K.child_step();
	}
	long guard = 0;
	for (;;) {
		int cnt = 0;
		for (unsigned long i = 0; i < n; i++) {
			pf[i].revents = 0;
			if (pf[i].fd < 0) continue;
			SFd *d = getfd(pf[i].fd);
			if (!d) { pf[i].revents = POLLNVAL; cnt++; continue; }
			short re = 0;
			if (d->kind == 1) {
				if ((pf[i].events & POLLIN) && !K.tty_in.empty()) re |= POLLIN;
				if (pf[i].events & POLLOUT) re |= POLLOUT;
			} else if (d->kind == 2) {
				re |= pf[i].events & (POLLIN | POLLOUT);
			} else if (d->kind == 3) {
				int w; K.pipe_refs(d->pipe, nullptr, &w);
				if ((pf[i].events & POLLIN) && !K.pipes[(size_t) d->pipe].buf.empty()) re |= POLLIN;
				if (w == 0) re |= POLLHUP;
			} else if (d->kind == 4) {
				int r; K.pipe_refs(d->pipe, &r, nullptr);
				SPipe &p = K.pipes[(size_t) d->pipe];
				if ((pf[i].events & POLLOUT) && (long) p.buf.size() < p.cap) re |= POLLOUT;
				if (r == 0) re |= POLLERR;
			}
			pf[i].revents = re;
			if (re) cnt++;
		}
		if (cnt) {
			Fnv h;
			for (unsigned long i = 0; i < n; i++) h.num((unsigned long long) pf[i].revents);
			K.ev("poll", cnt, h.h);
			// the child loop's poll that reports a ready pipe is followed by a transfer: like the transfer
			// itself it is progress bounded by the data and does not count against the budgets
			if (!only_tty) { if (K.step_calls > 0) K.step_calls--; if (K.run_calls > 0) K.run_calls--; }
			return cnt;
		}
		if (K.any_child_can_progress()) {
			K.child_step();
			if (++guard > 50000000) K.end_run(OUT_HANG_RUN, "poll: children progress forever");
			continue;
		}
		if (has_tty && (only_tty || timeout < 0)) {
			// quiescent: everything typed so far has been consumed
			size_t before = K.tty_in.size();
			K.client->need_input();
			if (K.tty_in.size() == before) {
				// the user resized the window instead of typing: the signal interrupts poll
				K.probe("poll_eintr");
				K.ev("poll", -EINTR, 2);
				errno = EINTR;
				return -1;
			}
			continue;
		}
		if (timeout >= 0) {
			K.clock_ns += (long long) timeout * 1000000ll;
			K.probe("poll_timeout_expired");
			K.ev("poll", 0, 0);
			return 0;
		}
		K.end_run(OUT_DEADLOCK, "poll without timeout and nothing can become ready");
	}
}

int sim_socket(int a, int b, int c) { (void) a; (void) b; (void) c; K.tick(S_ANY, nullptr); K.ev("socket", -EAFNOSUPPORT, 0); errno = EAFNOSUPPORT; return -1; }
int sim_connect(int a, const void *b, unsigned c) { (void) a; (void) b; (void) c; K.tick(S_ANY, nullptr); errno = ECONNREFUSED; return -1; }
int sim_shutdown(int a, int b) { (void) a; (void) b; K.tick(S_ANY, nullptr); errno = ENOTSOCK; return -1; }

// ---- stdio as seen by "vi -s -e"

int sim_getchar(void)
{
	K.tick(S_ANY, nullptr);
	int guard = 0;
	while (K.tty_in.empty()) {
		if (++guard > 2) K.end_run(OUT_PLAN_END, "no input supplied");
		K.client->need_input();
	}
	int c = K.tty_in.front();
	K.tty_in.pop_front();
	K.ev("getchar", c, 0);
	return c;
}

int sim_getc(void *f) { (void) f; return sim_getchar(); }

static int out_bytes(const char *s, size_t n)
{
	K.tick(S_TTYW, nullptr);
	K.tty_out(s, n);
	Fnv h; h.mem(s, n);
	K.ev("stdout", (long) n, h.h);
	return (int) n;
}

int sim_printf(const char *fmt, ...)
{
	va_list ap, aq;
	va_start(ap, fmt);
	va_copy(aq, ap);
	int n = vsnprintf(nullptr, 0, fmt, ap);
	va_end(ap);
	if (n < 0) { va_end(aq); return n; }
	std::string b((size_t) n + 1, '\0');
	vsnprintf(&b[0], (size_t) n + 1, fmt, aq);
	va_end(aq);
	return out_bytes(b.data(), (size_t) n);
}

int sim_puts(const char *s) { std::string b = std::string(s) + "\n"; out_bytes(b.data(), b.size()); return 1; }
int sim_putchar(int c) { char ch = (char) c; out_bytes(&ch, 1); return c; }
int sim_fputs(const char *s, void *f) { (void) f; out_bytes(s, strlen(s)); return 1; }
int sim_fputc(int c, void *f) { (void) f; return sim_putchar(c); }
unsigned long sim_fwrite(const void *p, unsigned long sz, unsigned long n, void *f) { (void) f; out_bytes((const char *) p, sz * n); return n; }

// ---- memory: tracked so that a run that is abandoned by longjmp leaks nothing,
// and filled so that reads of uninitialised heap are a function of the plan

void *sim_malloc(unsigned long n)
{
	// a plan that makes the editor hold millions of lines (a global putting a large register on every line)
	// is ended unjudged before it takes the machine's memory: allocation failure is not a fault we inject
	if (K.live.size() > 3000000 || n > (1ul << 30)) K.end_run(OUT_PLAN_END, "memory budget: the run holds more than 3 000 000 allocations");
	void *p = malloc(n ? n : 1);
	if (!p) return nullptr;
	memset(p, 0xA5, n);
	K.live.insert(p);
	return p;
}

void *sim_calloc(unsigned long a, unsigned long b)
{
	void *p = calloc(a ? a : 1, b ? b : 1);
	if (p) K.live.insert(p);
	return p;
}

void sim_free(void *p)
{
	if (!p) return;
	K.live.erase(p);
	free(p);
}

void *sim_realloc(void *p, unsigned long n)
{
	if (p) K.live.erase(p);
	void *q = realloc(p, n ? n : 1);
	if (q) K.live.insert(q);
	return q;
}

long sim_time(long *t) { long v = K.now_s(); if (t) *t = v; return v; }
int sim_getpid(void) { return 42; }

static int unmodelled(const char *name)
{
	K.unmodelled.push_back(name);
	errno = ENOSYS;
	return -1;
}
int sim_unmodelled_execl(void) { return unmodelled("execl"); }
int sim_unmodelled_execlp(void) { return unmodelled("execlp"); }
int sim_unmodelled_select(void) { return unmodelled("select"); }
int sim_unmodelled_nanosleep(void) { return unmodelled("nanosleep"); }
int sim_unmodelled_usleep(void) { return unmodelled("usleep"); }
int sim_unmodelled_sleep(void) { return unmodelled("sleep"); }

// aliases: objcopy wants one target per renamed symbol
int sim_open64(const char *p, int fl, int mode) { return sim_open(p, fl, mode); }
int sim_stat64(const char *p, struct stat *st) { return sim_stat(p, st); }
int sim_lstat(const char *p, struct stat *st) { return stat_impl(p, st, false); }
int sim_ftruncate64(int fd, long len) { return sim_ftruncate(fd, len); }
void sim__exit(int st) { sim_exit(st); }
int sim_fcntl64(int fd, int cmd, long arg) { return sim_fcntl(fd, cmd, arg); }
int sim_putc(int c, void *f) { return sim_fputc(c, f); }
int sim_fgetc(void *f) { return sim_getc(f); }
long sim_lseek64(int fd, long off, int wh) { return sim_lseek(fd, off, wh); }
int sim_fdatasync(int fd) { return sim_fsync(fd); }

} // extern "C"
