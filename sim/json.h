// Minimal JSON value: enough to write and read plans, replay files and
// worker result lines.  Byte strings are stored as std::string holding raw
// bytes; on output every byte outside printable ASCII becomes \u00XX and on
// input \u00XX (XX <= ff) becomes that byte again, so arbitrary bytes
// round-trip losslessly (the files are valid JSON; the strings are to be read
// as Latin-1 views of bytes).
#pragma once
#include <cstdint>
#include <cstdlib>
#include <map>
#include <stdexcept>
#include <string>
#include <utility>
#include <vector>

struct Json {
	enum T { NUL, BOOL, INT, STR, ARR, OBJ } t = NUL;
	bool b = false;
	long long i = 0;
	std::string s;
	std::vector<Json> a;
	std::vector<std::pair<std::string, Json>> o;

	Json() {}
	Json(bool v) : t(BOOL), b(v) {}
	Json(int v) : t(INT), i(v) {}
	Json(long v) : t(INT), i(v) {}
	Json(long long v) : t(INT), i(v) {}
	Json(unsigned long v) : t(INT), i((long long) v) {}
	Json(unsigned long long v) : t(INT), i((long long) v) {}
	Json(const char *v) : t(STR), s(v) {}
	Json(const std::string &v) : t(STR), s(v) {}
	static Json arr() { Json j; j.t = ARR; return j; }
	static Json obj() { Json j; j.t = OBJ; return j; }

	bool is_null() const { return t == NUL; }
	Json &push(const Json &v) { t = ARR; a.push_back(v); return *this; }
	Json &set(const std::string &k, const Json &v) {
		t = OBJ;
		for (auto &kv : o)
			if (kv.first == k) { kv.second = v; return *this; }
		o.push_back({k, v});
		return *this;
	}
	const Json *find(const std::string &k) const {
		for (auto &kv : o)
			if (kv.first == k) return &kv.second;
		return nullptr;
	}
	bool has(const std::string &k) const { return find(k) != nullptr; }
	const Json &at(const std::string &k) const {
		static Json nul;
		const Json *p = find(k);
		return p ? *p : nul;
	}
	long long num(const std::string &k, long long d = 0) const {
		const Json *p = find(k);
		return p && p->t == INT ? p->i : (p && p->t == BOOL ? p->b : d);
	}
	std::string str(const std::string &k, const std::string &d = "") const {
		const Json *p = find(k);
		return p && p->t == STR ? p->s : d;
	}
	bool boolean(const std::string &k, bool d = false) const {
		const Json *p = find(k);
		return p ? (p->t == BOOL ? p->b : p->t == INT ? p->i != 0 : d) : d;
	}

	static void esc(std::string &out, const std::string &s) {
		static const char *hex = "0123456789abcdef";
		out += '"';
		for (unsigned char c : s) {
			if (c == '"') out += "\\\"";
			else if (c == '\\') out += "\\\\";
			else if (c == '\n') out += "\\n";
			else if (c == '\t') out += "\\t";
			else if (c < 0x20 || c >= 0x7f) {
				out += "\\u00";
				out += hex[c >> 4];
				out += hex[c & 15];
			} else out += (char) c;
		}
		out += '"';
	}
	void dump(std::string &out, int ind = -1, int lvl = 0) const {
		auto nl = [&](int l) {
			if (ind >= 0) { out += '\n'; out.append((size_t) (ind * l), ' '); }
		};
		switch (t) {
		case NUL: out += "null"; break;
		case BOOL: out += b ? "true" : "false"; break;
		case INT: out += std::to_string(i); break;
		case STR: esc(out, s); break;
		case ARR:
			out += '[';
			for (size_t k = 0; k < a.size(); k++) {
				if (k) out += ',';
				nl(lvl + 1);
				a[k].dump(out, ind, lvl + 1);
			}
			if (!a.empty()) nl(lvl);
			out += ']';
			break;
		case OBJ:
			out += '{';
			for (size_t k = 0; k < o.size(); k++) {
				if (k) out += ',';
				nl(lvl + 1);
				esc(out, o[k].first);
				out += ind >= 0 ? ": " : ":";
				o[k].second.dump(out, ind, lvl + 1);
			}
			if (!o.empty()) nl(lvl);
			out += '}';
			break;
		}
	}
	std::string dump(int ind = -1) const { std::string s2; dump(s2, ind); return s2; }

	// ---- parser
	struct P {
		const std::string &s; size_t p = 0;
		explicit P(const std::string &x) : s(x) {}
		void ws() { while (p < s.size() && (s[p] == ' ' || s[p] == '\n' || s[p] == '\t' || s[p] == '\r')) p++; }
		[[noreturn]] void fail(const char *m) { throw std::runtime_error(std::string("json: ") + m + " at " + std::to_string(p)); }
		Json val() {
			ws();
			if (p >= s.size()) fail("eof");
			char c = s[p];
			if (c == '{') {
				Json j = Json::obj(); p++; ws();
				if (p < s.size() && s[p] == '}') { p++; return j; }
				for (;;) {
					ws();
					if (p >= s.size() || s[p] != '"') fail("key");
					std::string k = str(); ws();
					if (p >= s.size() || s[p] != ':') fail("colon");
					p++;
					j.o.push_back({k, val()}); ws();
					if (p < s.size() && s[p] == ',') { p++; continue; }
					if (p < s.size() && s[p] == '}') { p++; return j; }
					fail("obj");
				}
			}
			if (c == '[') {
				Json j = Json::arr(); p++; ws();
				if (p < s.size() && s[p] == ']') { p++; return j; }
				for (;;) {
					j.a.push_back(val()); ws();
					if (p < s.size() && s[p] == ',') { p++; continue; }
					if (p < s.size() && s[p] == ']') { p++; return j; }
					fail("arr");
				}
			}
			if (c == '"') return Json(str());
			if (!s.compare(p, 4, "true")) { p += 4; return Json(true); }
			if (!s.compare(p, 5, "false")) { p += 5; return Json(false); }
			if (!s.compare(p, 4, "null")) { p += 4; return Json(); }
			size_t q = p;
			if (q < s.size() && (s[q] == '-' || s[q] == '+')) q++;
			while (q < s.size() && ((s[q] >= '0' && s[q] <= '9') || s[q] == '.' || s[q] == 'e' || s[q] == 'E' || s[q] == '-' || s[q] == '+')) q++;
			if (q == p) fail("value");
			std::string n = s.substr(p, q - p);
			p = q;
			if (n.find_first_of(".eE") != std::string::npos) return Json((long long) strtod(n.c_str(), nullptr));
			return Json((long long) strtoll(n.c_str(), nullptr, 10));
		}
		std::string str() {
			std::string o; p++;
			while (p < s.size() && s[p] != '"') {
				char c = s[p++];
				if (c != '\\') { o += c; continue; }
				if (p >= s.size()) fail("esc");
				char e = s[p++];
				switch (e) {
				case 'n': o += '\n'; break;
				case 't': o += '\t'; break;
				case 'r': o += '\r'; break;
				case 'b': o += '\b'; break;
				case 'f': o += '\f'; break;
				case 'u': {
					if (p + 4 > s.size()) fail("u");
					unsigned v = (unsigned) strtoul(s.substr(p, 4).c_str(), nullptr, 16);
					p += 4;
					if (v <= 0xff) o += (char) v;
					else {	// not produced by us; encode as UTF-8
						if (v < 0x800) { o += (char) (0xc0 | (v >> 6)); o += (char) (0x80 | (v & 0x3f)); }
						else { o += (char) (0xe0 | (v >> 12)); o += (char) (0x80 | ((v >> 6) & 0x3f)); o += (char) (0x80 | (v & 0x3f)); }
					}
					break;
				}
				default: o += e;
				}
			}
			if (p >= s.size()) fail("string");
			p++;
			return o;
		}
	};
	static Json parse(const std::string &s) { P p(s); Json j = p.val(); return j; }
};
