// Small utilities shared by the whole simulator: the one PRNG every decision
// is drawn from, FNV hashing for fingerprints, string helpers.
#pragma once
#include <cstdint>
#include <cstdio>
#include <cstring>
#include <string>
#include <vector>

struct Rng {
	uint64_t s;
	// The seed is scrambled: with the raw seed as the state, the streams of seeds k and k+1
	// (as used by "seed * gamma + tag") would be the same sequence shifted by one draw.
	explicit Rng(uint64_t seed = 0)
	{
		uint64_t z = seed + 0x632BE59BD9B4E019ull;
		z = (z ^ (z >> 30)) * 0xBF58476D1CE4E5B9ull;
		z = (z ^ (z >> 27)) * 0x94D049BB133111EBull;
		s = z ^ (z >> 31);
	}
	uint64_t next() {			// SplitMix64
		uint64_t z = (s += 0x9E3779B97F4A7C15ull);
		z = (z ^ (z >> 30)) * 0xBF58476D1CE4E5B9ull;
		z = (z ^ (z >> 27)) * 0x94D049BB133111EBull;
		return z ^ (z >> 31);
	}
	// independent sub-stream; does not advance this stream
	Rng fork(uint64_t tag) const {
		Rng r(s ^ (tag * 0xD6E8FEB86659FD93ull + 0x2545F4914F6CDD1Dull));
		r.next();
		return Rng(r.next());
	}
	uint64_t below(uint64_t n) { return n ? next() % n : 0; }
	long range(long lo, long hi) { return hi <= lo ? lo : lo + (long) below((uint64_t) (hi - lo + 1)); }
	bool chance(int num, int den) { return (long) below((uint64_t) den) < num; }
	template <class T> const T &pick(const std::vector<T> &v) { return v[below(v.size())]; }
	int weighted(const std::vector<int> &w) {
		long tot = 0;
		for (int x : w) tot += x;
		long r = (long) below((uint64_t) (tot > 0 ? tot : 1));
		for (size_t i = 0; i < w.size(); i++) {
			if (r < w[i]) return (int) i;
			r -= w[i];
		}
		return (int) w.size() - 1;
	}
};

struct Fnv {
	uint64_t h = 1469598103934665603ull;
	void byte(unsigned char c) { h = (h ^ c) * 1099511628211ull; }
	void mem(const void *p, size_t n) {
		const unsigned char *s = (const unsigned char *) p;
		for (size_t i = 0; i < n; i++) byte(s[i]);
	}
	void str(const std::string &s) { mem(s.data(), s.size()); byte(0xff); }
	void num(uint64_t v) { for (int i = 0; i < 8; i++) byte((unsigned char) (v >> (8 * i))); }
};

static inline uint64_t fnv_str(const std::string &s) { Fnv f; f.str(s); return f.h; }

static inline std::string hex64(uint64_t v) {
	char b[32];
	snprintf(b, sizeof b, "%016llx", (unsigned long long) v);
	return b;
}

// printable rendering of a byte string for messages
static inline std::string vis(const std::string &s, size_t max = 200) {
	std::string o;
	for (size_t i = 0; i < s.size() && i < max; i++) {
		unsigned char c = (unsigned char) s[i];
		char b[8];
		if (c == '\n') o += "\\n";
		else if (c == '\t') o += "\\t";
		else if (c == 27) o += "\\e";
		else if (c == '\\') o += "\\\\";
		else if (c < 32 || c == 127) { snprintf(b, sizeof b, "^%c", c == 127 ? '?' : c + 64); o += b; }
		else o += (char) c;
	}
	if (s.size() > max) o += "...(" + std::to_string(s.size()) + " bytes)";
	return o;
}

static inline bool starts_with(const std::string &s, const std::string &p) {
	return s.size() >= p.size() && !memcmp(s.data(), p.data(), p.size());
}

static inline std::vector<std::string> split_lines(const std::string &s) {
	// "a\nb\n" -> {"a","b"}; "a\nb" -> {"a","b"}; "" -> {}
	std::vector<std::string> v;
	size_t i = 0;
	while (i < s.size()) {
		size_t j = s.find('\n', i);
		if (j == std::string::npos) { v.push_back(s.substr(i)); break; }
		v.push_back(s.substr(i, j - i));
		i = j + 1;
	}
	return v;
}

static inline std::string join_lines(const std::vector<std::string> &v, size_t a = 0, size_t b = (size_t) -1) {
	std::string o;
	for (size_t i = a; i < v.size() && i < b; i++) { o += v[i]; o += '\n'; }
	return o;
}

// strict UTF-8 validity (no overlongs, no surrogates, <= U+10FFFF)
static inline bool utf8_valid(const std::string &s) {
	size_t i = 0, n = s.size();
	while (i < n) {
		unsigned c = (unsigned char) s[i];
		int len; unsigned cp;
		if (c < 0x80) { i++; continue; }
		else if ((c & 0xe0) == 0xc0) { len = 2; cp = c & 0x1f; }
		else if ((c & 0xf0) == 0xe0) { len = 3; cp = c & 0x0f; }
		else if ((c & 0xf8) == 0xf0) { len = 4; cp = c & 0x07; }
		else return false;
		if (i + len > n) return false;
		for (int k = 1; k < len; k++) {
			unsigned d = (unsigned char) s[i + k];
			if ((d & 0xc0) != 0x80) return false;
			cp = (cp << 6) | (d & 0x3f);
		}
		if (len == 2 && cp < 0x80) return false;
		if (len == 3 && cp < 0x800) return false;
		if (len == 4 && cp < 0x10000) return false;
		if (cp > 0x10ffff || (cp >= 0xd800 && cp <= 0xdfff)) return false;
		i += len;
	}
	return true;
}
