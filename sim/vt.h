// The simulated terminal device: interprets exactly the output neatvi emits
// (CSI H K L M r m C D A B J, CR, LF, BS, UTF-8 text with width 0/1/2) and
// maintains a cell grid, cursor and scroll region.  It is a stub peer: the
// oracle for C19 reads only what the editor wrote here.
#pragma once
#include <string>
#include <vector>

struct VT {
	struct Cell { std::string ch; bool cont = false; };
	int rows = 24, cols = 80;
	int cr = 0, cc = 0;		// cursor
	int top = 0, bot = 23;		// scroll region (inclusive)
	bool wrap = false;		// pending wrap
	std::vector<std::vector<Cell>> g;
	// parser
	int st = 0;			// 0 ground 1 esc 2 csi 3 utf8
	std::string par;
	std::string u8; int u8need = 0;
	long unknown = 0;		// sequences not understood (reported in evidence)
	long bytes = 0;

	void reset(int r, int c) {
		rows = r < 1 ? 1 : r; cols = c < 1 ? 1 : c;
		g.assign((size_t) rows, std::vector<Cell>((size_t) cols));
		cr = cc = 0; top = 0; bot = rows - 1; wrap = false; st = 0; par.clear(); u8.clear();
		unknown = 0; bytes = 0;
	}
	void resize(int r, int c) {
		r = r < 1 ? 1 : r; c = c < 1 ? 1 : c;
		g.resize((size_t) r);
		for (auto &row : g) row.resize((size_t) c);
		rows = r; cols = c; top = 0; bot = rows - 1;
		if (cr >= rows) cr = rows - 1;
		if (cc >= cols) cc = cols - 1;
		wrap = false;
	}
	static int width(unsigned cp) {
		if (cp < 0x300) return 1;
		if ((cp >= 0x300 && cp <= 0x36f) || (cp >= 0x64b && cp <= 0x655) || cp == 0x670 ||
		    cp == 0x200c || cp == 0x200d || (cp >= 0x200b && cp <= 0x200f) || (cp >= 0xfe00 && cp <= 0xfe0f))
			return 0;
		if ((cp >= 0x1100 && cp <= 0x115f) || (cp >= 0x2e80 && cp <= 0xa4cf) || (cp >= 0xac00 && cp <= 0xd7a3) ||
		    (cp >= 0xf900 && cp <= 0xfaff) || (cp >= 0xfe30 && cp <= 0xfe6f) || (cp >= 0xff00 && cp <= 0xff60) ||
		    (cp >= 0xffe0 && cp <= 0xffe6) || (cp >= 0x1f300 && cp <= 0x1f64f) || (cp >= 0x20000 && cp <= 0x3fffd))
			return 2;
		return 1;
	}
	void scroll_up(int t, int b, int n) {	// delete n lines at t within [t,b]
		for (int k = 0; k < n && t <= b; k++) {
			g.erase(g.begin() + t);
			g.insert(g.begin() + b, std::vector<Cell>((size_t) cols));
		}
	}
	void scroll_down(int t, int b, int n) {	// insert n blank lines at t within [t,b]
		for (int k = 0; k < n && t <= b; k++) {
			g.erase(g.begin() + b);
			g.insert(g.begin() + t, std::vector<Cell>((size_t) cols));
		}
	}
	void linefeed() {
		wrap = false;
		if (cr == bot) scroll_up(top, bot, 1);
		else if (cr < rows - 1) cr++;
	}
	void put(const std::string &ch, unsigned cp) {
		int w = width(cp);
		if (w == 0) {
			int c = wrap ? cc : cc - 1;
			while (c > 0 && g[(size_t) cr][(size_t) c].cont) c--;
			if (c >= 0) g[(size_t) cr][(size_t) c].ch += ch;
			return;
		}
		if (wrap || cc + w > cols) { cc = 0; linefeed(); }
		Cell &c = g[(size_t) cr][(size_t) cc];
		// overwriting half of a wide char blanks the other half
		if (c.cont && cc > 0) { g[(size_t) cr][(size_t) cc - 1].ch.clear(); }
		if (!c.cont && cc + 1 < cols && g[(size_t) cr][(size_t) cc + 1].cont) { g[(size_t) cr][(size_t) cc + 1].cont = false; g[(size_t) cr][(size_t) cc + 1].ch.clear(); }
		c.ch = ch; c.cont = false;
		if (w == 2 && cc + 1 < cols) {
			Cell &d = g[(size_t) cr][(size_t) cc + 1];
			if (cc + 2 < cols && g[(size_t) cr][(size_t) cc + 2].cont) { g[(size_t) cr][(size_t) cc + 2].cont = false; g[(size_t) cr][(size_t) cc + 2].ch.clear(); }
			d.ch.clear(); d.cont = true;
		}
		cc += w;
		if (cc >= cols) { cc = cols - 1; wrap = true; }
	}
	int arg(size_t idx, int def) const {
		size_t i = 0, k = 0;
		while (k < idx && i < par.size()) { if (par[i] == ';') k++; i++; }
		if (k < idx || i >= par.size()) return def;
		if (par[i] < '0' || par[i] > '9') return def;
		int v = 0;
		while (i < par.size() && par[i] >= '0' && par[i] <= '9') { v = v * 10 + (par[i] - '0'); if (v > 100000) v = 100000; i++; }
		return v;
	}
	void csi(char f) {
		wrap = false;
		switch (f) {
		case 'H': case 'f': {
			int r = arg(0, 1), c = arg(1, 1);
			cr = r < 1 ? 0 : r > rows ? rows - 1 : r - 1;
			cc = c < 1 ? 0 : c > cols ? cols - 1 : c - 1;
			break;
		}
		case 'K': {
			int m = arg(0, 0);
			int a = m == 0 ? cc : 0, b = m == 1 ? cc : cols - 1;
			for (int c = a; c <= b; c++) { g[(size_t) cr][(size_t) c].ch.clear(); g[(size_t) cr][(size_t) c].cont = false; }
			break;
		}
		case 'J': {
			int m = arg(0, 0);
			for (int r = 0; r < rows; r++)
				for (int c = 0; c < cols; c++) {
					bool in = m == 2 || (m == 0 && (r > cr || (r == cr && c >= cc))) || (m == 1 && (r < cr || (r == cr && c <= cc)));
					if (in) { g[(size_t) r][(size_t) c].ch.clear(); g[(size_t) r][(size_t) c].cont = false; }
				}
			break;
		}
		case 'L': if (cr >= top && cr <= bot) { scroll_down(cr, bot, arg(0, 1) < 1 ? 1 : arg(0, 1)); cc = 0; } break;
		case 'M': if (cr >= top && cr <= bot) { scroll_up(cr, bot, arg(0, 1) < 1 ? 1 : arg(0, 1)); cc = 0; } break;
		case 'r': {
			int t = arg(0, 1), b = arg(1, rows);
			if (t < 1) t = 1;
			if (b > rows) b = rows;
			if (t < b) { top = t - 1; bot = b - 1; } else { top = 0; bot = rows - 1; }
			cr = 0; cc = 0;
			break;
		}
		case 'm': case 'l': case 'h': break;
		case 'C': { int n = arg(0, 1); if (n < 1) n = 1; cc = cc + n >= cols ? cols - 1 : cc + n; break; }
		case 'D': { int n = arg(0, 1); if (n < 1) n = 1; cc = cc - n < 0 ? 0 : cc - n; break; }
		case 'A': { int n = arg(0, 1); if (n < 1) n = 1; cr = cr - n < 0 ? 0 : cr - n; break; }
		case 'B': { int n = arg(0, 1); if (n < 1) n = 1; cr = cr + n >= rows ? rows - 1 : cr + n; break; }
		default: unknown++;
		}
	}
	void feed(const char *s, size_t n) {
		for (size_t i = 0; i < n; i++) {
			unsigned char c = (unsigned char) s[i];
			bytes++;
			if (st == 3) {
				if ((c & 0xc0) == 0x80) {
					u8 += (char) c;
					if (--u8need == 0) {
						unsigned cp = 0;
						unsigned char l = (unsigned char) u8[0];
						cp = u8.size() == 2 ? l & 0x1f : u8.size() == 3 ? l & 0x0f : l & 0x07;
						for (size_t k = 1; k < u8.size(); k++) cp = (cp << 6) | ((unsigned char) u8[k] & 0x3f);
						put(u8, cp);
						st = 0;
					}
					continue;
				}
				st = 0;	// broken sequence: show a replacement cell, reprocess c
				put("?", '?');
			}
			if (st == 1) {
				if (c == '[') { st = 2; par.clear(); }
				else { st = 0; unknown++; }
				continue;
			}
			if (st == 2) {
				if ((c >= '0' && c <= '9') || c == ';' || c == '?') par += (char) c;
				else { csi((char) c); st = 0; }
				continue;
			}
			if (c == 27) { st = 1; continue; }
			if (c == '\r') { cc = 0; wrap = false; continue; }
			if (c == '\n') { linefeed(); continue; }
			if (c == '\b') { if (cc > 0) cc--; wrap = false; continue; }
			if (c == 7) continue;
			if (c == '\t') { int nc = (cc / 8 + 1) * 8; cc = nc >= cols ? cols - 1 : nc; continue; }
			if (c < 0x20 || c == 0x7f) { unknown++; continue; }
			if (c < 0x80) { put(std::string(1, (char) c), c); continue; }
			if ((c & 0xe0) == 0xc0) { u8.assign(1, (char) c); u8need = 1; st = 3; continue; }
			if ((c & 0xf0) == 0xe0) { u8.assign(1, (char) c); u8need = 2; st = 3; continue; }
			if ((c & 0xf8) == 0xf0) { u8.assign(1, (char) c); u8need = 3; st = 3; continue; }
			put("?", '?');
		}
	}
	std::string rowtext(int r) const {
		std::string o;
		if (r < 0 || r >= rows) return o;
		int last = -1;
		for (int c = 0; c < cols; c++)
			if (!g[(size_t) r][(size_t) c].ch.empty()) last = c;
		for (int c = 0; c <= last; c++) {
			const Cell &x = g[(size_t) r][(size_t) c];
			if (x.cont) continue;
			o += x.ch.empty() ? std::string(" ") : x.ch;
		}
		// trailing blanks are not significant
		while (!o.empty() && o.back() == ' ') o.pop_back();
		return o;
	}
	// cell text at (r,c) including blanks; wide continuation returns the owner's text
	std::string cell(int r, int c) const {
		if (r < 0 || r >= rows || c < 0 || c >= cols) return "";
		while (c > 0 && g[(size_t) r][(size_t) c].cont) c--;
		return g[(size_t) r][(size_t) c].ch;
	}
	std::string dump() const {
		std::string o;
		for (int r = 0; r < rows; r++) { o += rowtext(r); o += '\n'; }
		return o;
	}
};
