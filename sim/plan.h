// A plan is what is executed, minimised and replayed; the seed only generates
// it.  Faults are attached to the step in flight and indexed by the call count
// of their seam *within that step*, so deleting other steps does not move them.
#pragma once
#include "json.h"
#include "util.h"

struct FileSpec {
	std::string path, data;
	long mtime = 0;		// seconds; 0 = "epoch of the run"
	bool ro = false;	// not writable (EACCES on open for writing)
	bool dir = false;	// a directory (EISDIR)
	std::string link;	// non-empty: a symbolic link to this path (data unused)
};

struct Fault {
	std::string seam;	// fopen fread fwrite fclose ftrunc stat fork pwrite pread poll any
	int nth = 0;		// the nth call of that seam made during the step (0-based)
	std::string effect;	// err short short_err sigwinch eintr fail
	long arg = 0;		// short count / rows
	long arg2 = 0;		// cols
	int err = 0;		// errno for err / short_err
};

struct Step {
	std::string op = "keys";	// keys | touch | remove | resize | advance | check
	std::string keys;		// bytes typed (op keys / check)
	std::string path, data;		// touch/remove
	long n1 = 0, n2 = 0;		// resize rows/cols, advance ns, touch mtime delta
	std::vector<Fault> faults;
	unsigned long long sched = 0;	// seed of the per-step scheduler stream
	Json meta;			// structured description used by the check's model
};

struct Knobs {
	long pipe_cap = 65536;
	int read_policy = 0;	// 0 full 1 one byte 2 random 3 fixed n
	long read_n = 0;
	int write_policy = 0;	// 0 full 1 one byte 2 random 3 fixed n 4 n-1
	long write_n = 0;
	long child_pace = 4096;	// max bytes a child moves per scheduling step
	long think_ns = 1000000;	// simulated think time between steps
	long disk_cap = -1;	// bytes the simulated disk can hold (-1 unlimited)
	int stall_pct = 0;	// chance that a poll tick passes without any child progress
};

struct Plan {
	std::string prop;
	unsigned long long seed = 0;
	std::string variant;		// check-specific sub-workload name
	std::vector<std::string> argv;	// argv[0] = "vi"
	std::vector<std::pair<std::string, std::string>> env;
	int rows = 24, cols = 80;
	Knobs knobs;
	std::vector<FileSpec> files;
	std::vector<Step> steps;
	std::string quit;		// robust quit suffix delivered after the last step
	Json meta;			// check-specific

	Json to_json() const {
		Json j = Json::obj();
		j.set("prop", prop).set("seed", seed).set("variant", variant);
		Json av = Json::arr();
		for (auto &x : argv) av.push(x);
		j.set("argv", av);
		Json ev = Json::obj();
		for (auto &kv : env) ev.set(kv.first, kv.second);
		j.set("env", ev);
		j.set("rows", rows).set("cols", cols);
		Json k = Json::obj();
		k.set("pipe_cap", knobs.pipe_cap).set("read_policy", knobs.read_policy).set("read_n", knobs.read_n)
		 .set("write_policy", knobs.write_policy).set("write_n", knobs.write_n).set("child_pace", knobs.child_pace)
		 .set("think_ns", knobs.think_ns).set("disk_cap", knobs.disk_cap).set("stall_pct", knobs.stall_pct);
		j.set("knobs", k);
		Json fs = Json::arr();
		for (auto &f : files) {
			Json o = Json::obj();
			o.set("path", f.path).set("data", f.data).set("mtime", f.mtime);
			if (f.ro) o.set("ro", true);
			if (f.dir) o.set("dir", true);
			if (!f.link.empty()) o.set("link", f.link);
			fs.push(o);
		}
		j.set("files", fs);
		Json ss = Json::arr();
		for (auto &s : steps) {
			Json o = Json::obj();
			o.set("op", s.op);
			if (!s.keys.empty()) o.set("keys", s.keys);
			if (!s.path.empty()) o.set("path", s.path);
			if (!s.data.empty()) o.set("data", s.data);
			if (s.n1) o.set("n1", s.n1);
			if (s.n2) o.set("n2", s.n2);
			if (s.sched) o.set("sched", s.sched);
			if (!s.faults.empty()) {
				Json fa = Json::arr();
				for (auto &f : s.faults) {
					Json fo = Json::obj();
					fo.set("seam", f.seam).set("nth", f.nth).set("effect", f.effect);
					if (f.arg) fo.set("arg", f.arg);
					if (f.arg2) fo.set("arg2", f.arg2);
					if (f.err) fo.set("err", f.err);
					fa.push(fo);
				}
				o.set("faults", fa);
			}
			if (!s.meta.is_null()) o.set("meta", s.meta);
			ss.push(o);
		}
		j.set("steps", ss);
		j.set("quit", quit);
		if (!meta.is_null()) j.set("meta", meta);
		return j;
	}
	static Plan from_json(const Json &j) {
		Plan p;
		p.prop = j.str("prop");
		p.seed = (unsigned long long) j.num("seed");
		p.variant = j.str("variant");
		for (auto &x : j.at("argv").a) p.argv.push_back(x.s);
		for (auto &kv : j.at("env").o) p.env.push_back({kv.first, kv.second.s});
		p.rows = (int) j.num("rows", 24);
		p.cols = (int) j.num("cols", 80);
		const Json &k = j.at("knobs");
		p.knobs.pipe_cap = k.num("pipe_cap", 65536);
		p.knobs.read_policy = (int) k.num("read_policy");
		p.knobs.read_n = k.num("read_n");
		p.knobs.write_policy = (int) k.num("write_policy");
		p.knobs.write_n = k.num("write_n");
		p.knobs.child_pace = k.num("child_pace", 4096);
		p.knobs.think_ns = k.num("think_ns", 1000000);
		p.knobs.disk_cap = k.num("disk_cap", -1);
		p.knobs.stall_pct = (int) k.num("stall_pct", 0);
		for (auto &f : j.at("files").a) {
			FileSpec fs;
			fs.path = f.str("path"); fs.data = f.str("data"); fs.mtime = f.num("mtime");
			fs.ro = f.boolean("ro"); fs.dir = f.boolean("dir"); fs.link = f.str("link");
			p.files.push_back(fs);
		}
		for (auto &s : j.at("steps").a) {
			Step st;
			st.op = s.str("op", "keys");
			st.keys = s.str("keys"); st.path = s.str("path"); st.data = s.str("data");
			st.n1 = s.num("n1"); st.n2 = s.num("n2");
			st.sched = (unsigned long long) s.num("sched");
			for (auto &f : s.at("faults").a) {
				Fault fa;
				fa.seam = f.str("seam"); fa.nth = (int) f.num("nth"); fa.effect = f.str("effect");
				fa.arg = f.num("arg"); fa.arg2 = f.num("arg2"); fa.err = (int) f.num("err");
				st.faults.push_back(fa);
			}
			st.meta = s.at("meta");
			p.steps.push_back(st);
		}
		p.quit = j.str("quit");
		p.meta = j.at("meta");
		return p;
	}
};

static inline Step keys_step(const std::string &keys) { Step s; s.op = "keys"; s.keys = keys; return s; }
