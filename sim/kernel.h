// The simulated kernel: clock, file system, tty (+VT emulator), pipes, child
// processes, signals.  Every libc entry point neatvi uses lands here (sim_*).
// Nothing in this file reads a real clock or any other source of
// nondeterminism: every choice comes from the plan or from the per-step
// scheduler stream seeded by the plan.
#pragma once
#include <functional>
#include <csetjmp>
#include <deque>
#include <map>
#include <set>
#include <string>
#include <unordered_set>
#include <vector>
#include "plan.h"
#include "vt.h"

enum Outcome {
	OUT_NONE = 0,
	OUT_RETURNED,		// nv_main returned
	OUT_EXITED,		// exit() called
	OUT_KILLED_SIGPIPE,	// default action of SIGPIPE
	OUT_HANG_STEP,		// a step exceeded its syscall budget
	OUT_HANG_RUN,		// the run exceeded its syscall budget
	OUT_NOQUIT,		// asked for more input after the quit suffix
	OUT_DEADLOCK,		// blocked with nothing that could ever wake it
	OUT_VIOLATION,		// an oracle ended the run
	OUT_PLAN_END,		// harness-side stop (e.g. plan error)
};
const char *outcome_name(int o);

enum Seam { S_ANY, S_FOPEN, S_FREAD, S_FWRITE, S_FCLOSE, S_FTRUNC, S_STAT, S_ACCESS, S_FORK, S_PWRITE, S_PREAD, S_POLL, S_WAIT, S_TTYW, S_CPOLL, S_N };
const char *seam_name(int s);
int seam_id(const std::string &s);

struct Inode {
	std::string data;
	long mtime = 0;
	bool ro = false, dir = false;
	std::string link;	// symbolic link: every call but lstat follows it
};

struct SPipe {
	std::string buf;
	long cap = 65536;
};

struct SFd {
	int kind = 0;		// 0 closed 1 tty 2 file 3 pipe read end 4 pipe write end
	std::string path;
	long off = 0;
	int acc = 0;		// O_RDONLY/O_WRONLY/O_RDWR
	bool append = false;
	bool nonblock = false;
	int pipe = -1;
};

struct SChild {
	int pid = 0;
	std::string cmd;
	std::vector<SFd> fds;
	int consume = 0;	// 0 none 1 all-then-out 2 stream 3 head(k lines)
	int prog = 0;		// program id, see kernel.cpp
	long headn = 1;
	std::string arg;	// echo text etc.
	std::string inacc;	// input consumed so far (all-then-out / head)
	std::string out;	// bytes still to be written to fd 1
	std::string err;	// bytes still to be written to fd 2
	bool in_done = false;	// stopped reading
	bool computed = false;
	bool exited = false;
	int status = 0;
	long delay = 0;		// scheduling steps to sleep before starting
	long nlines = 0;
};

struct Event { const char *call; long res; unsigned long long dig; long long t; int step; };

struct KernelClient {
	virtual ~KernelClient() {}
	// The editor asked the terminal for input, everything delivered so far is
	// consumed.  Push more input with Kernel::type(), or end the run.
	virtual void need_input() = 0;
};

struct Kernel {
	// ---- configuration of the current run
	const Plan *plan = nullptr;
	KernelClient *client = nullptr;
	Knobs knobs;
	long step_budget = 400000, run_budget = 3000000;
	long extra_cache = -1;
	std::function<long()> budget_extra;	// allowance on top of the budgets (set by the run: 40 calls per buffer line + 4 per byte)

	// ---- state
	long long clock_ns = 0;
	std::map<std::string, Inode> fs;
	std::vector<SFd> fds, child_fds;
	bool childmode = false;
	std::vector<SPipe> pipes;
	std::vector<SChild> children;
	int next_pid = 100, last_pid = 0;
	std::deque<unsigned char> tty_in;
	VT vt;
	int rows = 24, cols = 80;
	std::string out_stream;		// everything written to the tty, untranslated
	bool raw_mode = false;
	long tc_sets = 0;
	void (*handlers[65])(int) = {};
	int disp[65] = {};		// 0 default 1 ignore 2 handler
	long disk_used = 0;
	int next_write_err = 0;

	// ---- per step
	int cur_step = -1;
	const Step *step = nullptr;
	long seam_cnt[S_N] = {};
	Rng sched{0};
	long step_calls = 0, run_calls = 0;

	// ---- log
	Fnv fp, shape;
	std::vector<Event> ring;
	size_t ring_pos = 0;
	std::map<std::string, long> probes;	// reach probes
	std::map<std::string, long> fired;	// fault kinds fired
	std::map<std::string, long> configured;	// fault kinds configured
	std::vector<std::string> opens;		// paths opened during the current step
	std::vector<std::string> unmodelled;

	// ---- run frame
	jmp_buf run_jb;
	int outcome = OUT_NONE;
	int exit_status = 0;
	std::string outcome_note;

	// ---- memory handed to the editor
	std::unordered_set<void *> live;

	void reset(const Plan &p, KernelClient *c);
	void begin_step(int idx, const Step *s);
	[[noreturn]] void end_run(int outcome, const std::string &note = "");
	void release_memory();
	void type(const std::string &bytes) { for (unsigned char ch : bytes) tty_in.push_back(ch); }
	void ext_write(const std::string &path, const std::string &data, long mtime_delta);
	void ext_remove(const std::string &path);
	std::string real(const std::string &path) const;	// follows symbolic links (at most 8)
	void resize(int r, int c);
	void deliver(int sig);
	void advance(long long ns) { clock_ns += ns; }
	long now_s() const { return (long) (clock_ns / 1000000000ll); }
	void probe(const char *name, long n = 1) { probes[name] += n; }
	void ev(const char *call, long res, unsigned long long dig = 0);
	std::string tail_log(size_t n = 40) const;
	unsigned long long fingerprint() const { return fp.h; }

	// helpers used by the syscalls
	int tick(int seam, const Fault **f);	// returns 1 if the call must fail with EINTR
	const Fault *fault_for(int seam);
	std::vector<SFd> &tab() { return childmode ? child_fds : fds; }
	int alloc_fd(std::vector<SFd> &t);
	void pipe_refs(int pipe, int *readers, int *writers);
	bool child_can_progress(SChild &c);
	bool any_child_can_progress();
	void child_step();
	void child_run(SChild &c);
	void child_exit(SChild &c, int status);
	void tty_out(const char *s, size_t n);
	void classify(SChild &c);
};

extern Kernel K;
std::string catalogue_output(const std::string &cmd, const std::string &in);
